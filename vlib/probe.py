"""Monitor layer: wrappers at the public API boundary of the real esutil
functions.  Runs inside a worker process whose `import esutil` resolves to the
freshly built scratch copy.

Every wrapper
  1. snapshots all ndarray arguments (dtype, shape, strides, writeable flag,
     SHA-1 of the element bytes) -- the C15 monitor, active in every workload;
  2. invokes the real function;
  3. re-snapshots the arguments and reports differences that the instrument
     spec does not white-list as in-place;
  4. hands (args, kwargs, result | exception) to the oracles registered for
     the function.  Oracles record verdicts in the Collector and never raise
     into the observed program; an oracle that itself fails is recorded as an
     `oracle-error` (which makes the run inconclusive, not green).
"""
import hashlib
import importlib
import functools
import json
import os
import sys
import traceback

import numpy as np


class Collector:
    def __init__(self):
        self.counts = {}       # monitor -> {'ok':n,'violation':n,'skipped':{reason:n}}
        self.fam_counts = {}   # family -> {'ok':n,'violation':n,'skipped':n, 'cases': n}
        self.sigs = {}         # monitor -> set of signature hashes
        self.violations = []   # full records (bounded)
        self.nviol_dropped = 0
        self.samples = []
        self.calls = {}        # function label -> wrapper invocation count
        self.c15 = []          # snapshot differences
        self.c15_checked = 0   # number of array arguments snapshotted
        self.c15_funcs = {}    # function label -> set of layout signatures
        self.oracle_errors = []
        self.case = None       # current case dict
        self.case_events = []  # events of the current case (bounded)
        self.info = {}         # free-form per-property extra evidence
        self.max_viol = 60

    # ---- verdict API used by oracles -------------------------------------
    def _c(self, monitor):
        return self.counts.setdefault(monitor, {"ok": 0, "violation": 0, "skipped": {}})

    def _f(self):
        fam = (self.case or {}).get("family", "?")
        return self.fam_counts.setdefault(fam, {"ok": 0, "violation": 0, "skipped": 0, "cases": 0})

    def ok(self, monitor, sig=None, n=1):
        self._c(monitor)["ok"] += n
        self._f()["ok"] += n
        if sig is not None:
            self.sigs.setdefault(monitor, set()).add(_sighash(sig))

    def skipped(self, monitor, reason, n=1):
        d = self._c(monitor)["skipped"]
        d[reason] = d.get(reason, 0) + n
        self._f()["skipped"] += n

    def violation(self, monitor, what, witness=None, key=None):
        self._c(monitor)["violation"] += 1
        self._f()["violation"] += 1
        rec = {"monitor": monitor, "what": what, "key": key,
               "witness": _jsonable(witness), "case": self.case,
               "events": list(self.case_events[-12:])}
        if len(self.violations) < self.max_viol:
            self.violations.append(rec)
        else:
            self.nviol_dropped += 1

    def sample(self, obj, limit=4):
        if len(self.samples) < limit:
            self.samples.append(_jsonable(obj))

    def event(self, ev):
        if len(self.case_events) < 400:
            self.case_events.append(_jsonable(ev))

    def dump(self):
        return {
            "counts": self.counts, "fam_counts": self.fam_counts,
            "sigs": {k: sorted(v) for k, v in self.sigs.items()},
            "violations": self.violations, "nviol_dropped": self.nviol_dropped,
            "samples": self.samples, "calls": self.calls,
            "c15": self.c15[:60], "c15_n": len(self.c15),
            "c15_checked": self.c15_checked,
            "c15_funcs": {k: sorted(v) for k, v in self.c15_funcs.items()},
            "oracle_errors": self.oracle_errors[:20],
            "n_oracle_errors": len(self.oracle_errors),
            "info": _jsonable(self.info),
        }


COL = Collector()


def _sighash(sig):
    return int.from_bytes(hashlib.blake2b(repr(sig).encode(), digest_size=6).digest(), "big")


def _jsonable(o, depth=0):
    if depth > 6:
        return repr(o)[:200]
    if o is None or isinstance(o, (bool, int, str)):
        return o
    if isinstance(o, float):
        return o if np.isfinite(o) else repr(o)
    if isinstance(o, (np.integer,)):
        return int(o)
    if isinstance(o, (np.floating,)):
        return _jsonable(float(o))
    if isinstance(o, np.bool_):
        return bool(o)
    if isinstance(o, bytes):
        return "b:" + o[:200].hex()
    if isinstance(o, np.ndarray):
        if o.size <= 24 and o.dtype.names is None and o.dtype.kind in "iufb":
            return {"nd": str(o.dtype), "shape": list(o.shape),
                    "v": [_jsonable(x) for x in o.ravel().tolist()]}
        return {"nd": str(o.dtype), "shape": list(o.shape), "repr": repr(o)[:400]}
    if isinstance(o, dict):
        return {str(k): _jsonable(v, depth + 1) for k, v in list(o.items())[:60]}
    if isinstance(o, (list, tuple)):
        return [_jsonable(v, depth + 1) for v in list(o)[:60]]
    return repr(o)[:300]


# ---------------------------------------------------------------------------
# argument snapshots (C15)

def array_digest(a):
    """SHA-1 of element bytes in C order *as stored* (no byte-order
    normalisation), plus the layout that a caller could observe."""
    try:
        raw = a.tobytes()
    except Exception:
        raw = repr(a).encode()
    return (hashlib.sha1(raw).hexdigest(), a.dtype.str if a.dtype.names is None
            else repr(a.dtype.descr), a.shape, a.strides, bool(a.flags.writeable))


def _iter_arrays(args, kwargs):
    for i, a in enumerate(args):
        if isinstance(a, np.ndarray):
            yield ("arg%d" % i, a)
        elif isinstance(a, (list, tuple)) and len(a) <= 16:
            for j, b in enumerate(a):
                if isinstance(b, np.ndarray):
                    yield ("arg%d[%d]" % (i, j), b)
    for k, a in kwargs.items():
        if isinstance(a, np.ndarray):
            yield (k, a)
        elif isinstance(a, (list, tuple)) and len(a) <= 16:
            for j, b in enumerate(a):
                if isinstance(b, np.ndarray):
                    yield ("%s[%d]" % (k, j), b)


def layout_sig(a):
    if a.dtype.names is None:
        bo = a.dtype.byteorder
        kind = a.dtype.kind + str(a.dtype.itemsize)
    else:
        bos = set(a.dtype[n].base.byteorder for n in a.dtype.names)
        bo = "".join(sorted(bos))
        kind = "rec"
    return "%s%s/%dd/%s%s" % (bo, kind, a.ndim,
                              "C" if a.flags.c_contiguous else "strided",
                              "" if a.flags.writeable else "/ro")


# ---------------------------------------------------------------------------
# instrumentation

_INSTALLED = {}
_DEPTH = [0]


def _resolve(path):
    """'esutil.stat.util:Binner.dohist' -> (owner object, attr name)"""
    modname, _, attr = path.partition(":")
    obj = importlib.import_module(modname)
    parts = attr.split(".")
    for p in parts[:-1]:
        obj = getattr(obj, p)
    return obj, parts[-1]


def instrument(path, oracles=(), inplace=None, label=None, also=(), method=None):
    """Wrap the callable at `path` (module:attr[.attr]).  `also` lists other
    module namespaces re-exporting the same function, which are re-pointed
    at the wrapper.  `inplace(args, kwargs)` returns the set of argument
    labels the call is documented to modify.  Calling instrument() again on
    an already wrapped path only adds oracles."""
    label = label or path.split(":")[1]
    if path in _INSTALLED:
        w = _INSTALLED[path]
        for o in oracles:
            if o not in w._oracles:
                w._oracles.append(o)
        return w
    owner, name = _resolve(path)
    raw = owner.__dict__[name] if isinstance(owner, type) else getattr(owner, name)
    is_static = isinstance(raw, staticmethod)
    is_class = isinstance(raw, classmethod)
    real = raw.__func__ if (is_static or is_class) else raw
    orlist = list(oracles)

    @functools.wraps(real)
    def wrapper(*args, **kwargs):
        COL.calls[label] = COL.calls.get(label, 0) + 1
        _DEPTH[0] += 1
        snaps = []
        try:
            for nm, a in _iter_arrays(args, kwargs):
                snaps.append((nm, a, array_digest(a)))
        except Exception:
            pass
        exc = None
        result = None
        try:
            result = real(*args, **kwargs)
            return result
        except BaseException as e:  # observed, re-raised unchanged
            exc = e
            raise
        finally:
            _DEPTH[0] -= 1
            try:
                _after(label, args, kwargs, result, exc, snaps, inplace, orlist)
            except CaseTimeout:
                raise
            except BaseException as e:  # never leak monitor failures
                COL.oracle_errors.append(
                    {"label": label, "err": repr(e),
                     "tb": traceback.format_exc()[-1500:], "case": COL.case})

    wrapper._oracles = orlist
    wrapper._real = real
    wrapper._verif_label = label
    new = staticmethod(wrapper) if is_static else (classmethod(wrapper) if is_class else wrapper)
    setattr(owner, name, new)
    for other in also:
        om, _, on = other.partition(":")
        m = importlib.import_module(om)
        on = on or name
        if getattr(m, on, None) is real:
            setattr(m, on, wrapper)
    _INSTALLED[path] = wrapper
    return wrapper


class Call:
    __slots__ = ("label", "args", "kwargs", "result", "exc", "depth")

    def __init__(self, label, args, kwargs, result, exc, depth):
        self.label, self.args, self.kwargs = label, args, kwargs
        self.result, self.exc, self.depth = result, exc, depth

    def arg(self, pos, name, default=None):
        if name in self.kwargs:
            return self.kwargs[name]
        if pos is not None and pos < len(self.args):
            return self.args[pos]
        return default


def _after(label, args, kwargs, result, exc, snaps, inplace, oracles):
    allowed = ()
    if inplace is not None:
        try:
            allowed = inplace(args, kwargs) or ()
        except Exception:
            allowed = ()
    for nm, a, before in snaps:
        COL.c15_checked += 1
        COL.c15_funcs.setdefault(label, set()).add(layout_sig(a))
        if nm in allowed or "*" in allowed:
            continue
        after = array_digest(a)
        if after != before:
            what = []
            for k, x, y in zip(("bytes", "dtype", "shape", "strides", "writeable"), before, after):
                if x != y:
                    what.append(k)
            COL.c15.append({"func": label, "arg": nm, "changed": what,
                            "layout": layout_sig(a), "before": list(map(str, before)),
                            "after": list(map(str, after)),
                            "raised": type(exc).__name__ if exc is not None else None,
                            "case": COL.case})
    call = Call(label, args, kwargs, result, exc, _DEPTH[0])
    for o in oracles:
        try:
            o(call)
        except Exception as e:
            COL.oracle_errors.append(
                {"label": label, "oracle": getattr(o, "__name__", "?"), "err": repr(e),
                 "tb": traceback.format_exc()[-1500:], "case": COL.case})


class CaseTimeout(BaseException):
    """raised by the worker's per-case alarm.  Not an Exception: the drivers' and the repository's own
    `except Exception` clauses must not swallow it (a hung call would otherwise be recorded as one that raised)."""


# --- mutate-and-recall ---------------------------------------------------------------------------------------
# A result that aliases state kept by the library (a memoised array, a scratch buffer re-used between calls, an
# attribute of a long-lived object) is correct the first time and wrong after the caller - who owns what was returned
# - has written into it.  Every `every`-th successful attempt() of a property that enabled it is therefore followed by:
# snapshot the result, overwrite every writable array in it (those that do not overlap an argument), issue the
# identical call again, and require the second result to equal the snapshot.  Only deterministic calls are driven
# through attempt() by the properties that enable this.
RECALL = {"every": 0, "monitor": None, "n": 0, "skip": (), "only": None}


def enable_recall(monitor, every=5, skip=(), only=None):
    RECALL.update(every=every, monitor=monitor, n=0, skip=tuple(skip), only=only)


def _res_arrays(r, depth=0):
    if isinstance(r, np.ndarray):
        yield r
    elif isinstance(r, (tuple, list)) and depth < 3 and len(r) <= 64:
        for x in r:
            yield from _res_arrays(x, depth + 1)
    elif isinstance(r, dict) and depth < 3 and len(r) <= 64:
        for x in r.values():
            yield from _res_arrays(x, depth + 1)


def _freeze(r, depth=0):
    if isinstance(r, np.ndarray):
        if r.dtype.hasobject:
            return ("obj-array", r.shape)
        if r.dtype.names is not None and r.dtype.itemsize != sum(r.dtype.fields[n][0].itemsize for n in r.dtype.names):
            # padding bytes carry no value (and numpy does not promise to copy them): field by field
            return ("array", repr([(n, r.dtype.fields[n][0].str, r.dtype.fields[n][1]) for n in r.dtype.names]), r.shape,
                    tuple(np.ascontiguousarray(r[n]).tobytes() for n in r.dtype.names))
        return ("array", r.dtype.str if r.dtype.names is None else repr(r.dtype.descr), r.shape, r.tobytes())
    if isinstance(r, (tuple, list)) and depth < 3 and len(r) <= 64:
        return (type(r).__name__,) + tuple(_freeze(x, depth + 1) for x in r)
    if isinstance(r, dict) and depth < 3 and len(r) <= 64:
        return ("dict",) + tuple((repr(k), _freeze(v, depth + 1)) for k, v in r.items())
    if isinstance(r, (bool, int, float, complex, str, bytes, type(None), np.generic)):
        return ("scalar", type(r).__name__, repr(r))
    return ("opaque", type(r).__name__)


def _scribble(a):
    """overwrite a with values that differ from what it holds"""
    if a.dtype.names is not None:
        for n in a.dtype.names:
            _scribble(a[n])
        return
    k = a.dtype.kind
    if k in "iu":
        np.invert(a, out=a)
    elif k == "b":
        np.logical_not(a, out=a)
    elif k in "fc":
        a[...] = np.where(np.isfinite(a), a * -3 + 7.25, 1.5)
    elif k in "SU":
        a[...] = "Zq"[: max(1, a.dtype.itemsize // (4 if k == "U" else 1))]
    elif k == "V":
        a.view("u1")[...] = 0xA5 if a.flags.c_contiguous else 0


def _recall(fn, a, k, r, label):
    mon = RECALL["monitor"]
    args = [x for _, x in _iter_arrays(a, k)]
    self_ = getattr(fn, "__self__", None)
    targets = []
    for x in _res_arrays(r):
        if not x.flags.writeable or x.size == 0 or x.dtype.hasobject:
            continue
        if any(np.may_share_memory(x, y) for y in args):
            continue
        targets.append(x)
    if not targets:
        COL.skipped(mon, "recall/no-private-array-in-result")
        return r
    snap = _freeze(r)
    argsnap = [array_digest(y) for y in args]
    for x in targets:
        try:
            _scribble(x)
        except Exception:
            pass
    if [array_digest(y) for y in args] != argsnap:
        # the result overlapped an argument after all (may_share_memory is bounds-based, this is the exact test)
        COL.skipped(mon, "recall/result-overlaps-argument")
        return r
    try:
        r2 = fn(*a, **k)
    except Exception as e:
        COL.violation(mon, "%s: the identical call repeated after the caller overwrote the first result raised %s: %s" % (
            label, type(e).__name__, str(e)[:140]), {"label": label}, key="recall/" + label)
        return r
    if _freeze(r2) != snap:
        COL.violation(mon, "%s: the identical call repeated after the caller overwrote the arrays of the first result returns "
                      "something else (the result aliases state kept between calls)" % label, {"label": label}, key="recall/" + label)
    else:
        COL.ok(mon, ("recall", label, len(targets)))
    return r2


# --- refill-and-recall ------------------------------------------------------------------------------------------
# The mirror image of mutate-and-recall: state the library keeps about an *argument* (a remembered sort order, cached
# triangle ids) keyed on the identity of the array object goes stale when the caller refills that array in place, as
# code working through a preallocated buffer does.  For the functions a property names as order-agnostic, every
# `every`-th successful attempt() is followed by: reverse every 1-d array argument in place (all of them, so paired
# coordinates stay paired), repeat the call - the property's own wrappers judge it on the values now in the arrays -
# and reverse the arrays back.  The driver gets the first result.
ARGFLIP = {"every": 0, "n": 0, "only": {}}


def enable_argflip(only, every=4):
    """only: {label: None or predicate(args, kwargs) -> bool} - the calls for which reversing the arrays is a valid request"""
    ARGFLIP.update(every=every, n=0, only=dict(only))


def _argflip(fn, a, k):
    arrs = [x for _, x in _iter_arrays(a, k) if x.ndim == 1 and x.size > 1 and x.flags.writeable]
    if not arrs or max(x.size for x in arrs) > 200000:
        return              # (the long arrays of the big-array cases have their own differential)
    for i in range(len(arrs)):
        for j in range(i + 1, len(arrs)):
            if np.may_share_memory(arrs[i], arrs[j]):
                return
    for x in arrs:
        x[...] = x[::-1].copy()
    try:
        fn(*a, **k)
    except Exception:
        pass            # judged by the wrappers
    finally:
        for x in arrs:
            x[...] = x[::-1].copy()
    COL.info["argflip_repeats"] = COL.info.get("argflip_repeats", 0) + 1


def attempt(fn, *a, **k):
    """Driver helper: call fn, return (result, exception)."""
    try:
        r = fn(*a, **k)
    except Exception as e:  # noqa
        return None, e
    if ARGFLIP["every"]:
        label = getattr(fn, "_verif_label", None) or getattr(fn, "__qualname__", None) or getattr(fn, "__name__", "?")
        pred = ARGFLIP["only"].get(label, False)
        if pred is not False and (pred is None or pred(a, k)):
            ARGFLIP["n"] += 1
            if ARGFLIP["n"] % ARGFLIP["every"] == 0:
                _argflip(fn, a, k)
    if RECALL["every"] and r is not None:
        label = getattr(fn, "_verif_label", None) or getattr(fn, "__qualname__", None) or getattr(fn, "__name__", "?")
        if label not in RECALL["skip"] and "<lambda>" not in label and (RECALL["only"] is None or label in RECALL["only"]):
            RECALL["n"] += 1
            if RECALL["n"] % RECALL["every"] == 0:
                r = _recall(fn, a, k, r, label)
    return r, None


def big_vs_windows(monitor, label, fn, arrays, windows, scalars=(), kwargs=None, same=None, wit=None):
    """Differential check for size-gated code paths: fn(*arrays, *scalars, **kwargs) on long 1-d arrays must give,
    element for element, what the same call gives on short windows of the same arrays (which take the ordinary path,
    judged by the property's other oracles).  `same(big_slice, small)` compares one result component; default bitwise.
    Returns the big result (or None)."""
    kwargs = kwargs or {}
    big, e = attempt(fn, *arrays, *scalars, **kwargs)
    n = len(arrays[0])
    w = dict(wit or {}, label=label, n=n, kwargs=repr(kwargs)[:120])
    if e is not None:
        COL.violation(monitor, "%s on %d elements raised %s: %s" % (label, n, type(e).__name__, str(e)[:140]), w)
        return None
    comps = big if isinstance(big, (tuple, list)) else (big,)
    if any(np.shape(c) != (n,) for c in comps):
        COL.violation(monitor, "%s on %d elements returned shapes %r" % (label, n, [np.shape(c) for c in comps]), w)
        return big
    bad = None
    for (a, b) in windows:
        small, e = attempt(fn, *[x[a:b] for x in arrays], *scalars, **kwargs)
        if e is not None:
            continue
        sc = small if isinstance(small, (tuple, list)) else (small,)
        for k, (cb, cs) in enumerate(zip(comps, sc)):
            cb = np.asarray(cb)[a:b]
            cs = np.asarray(cs)
            ok = same(cb, cs) if same is not None else (cb.shape == cs.shape and cb.tobytes() == cs.tobytes())
            if not ok:
                j = int(np.nonzero(~(cb == cs))[0][0]) if cb.shape == cs.shape and (~(cb == cs)).any() else 0
                bad = "%s on %d elements: component %d differs from the same call on elements [%d:%d] at index %d (%r vs %r)" % (
                    label, n, k, a, b, a + j, cb[j] if cb.size > j else None, cs[j] if cs.size > j else None)
                break
        if bad:
            break
    if bad:
        COL.violation(monitor, bad, w)
    else:
        COL.ok(monitor, ("big", label, int(np.log2(n)), n % 100000 == 0, repr(sorted(kwargs))[:40]))
    return big
