"""Orchestration: build -> shard -> workers -> collect -> decide -> evidence."""
import argparse
import hashlib
import importlib
import json
import os
import re
import shutil
import subprocess
import sys
import tempfile
import time

HERE = os.path.dirname(os.path.abspath(__file__))
VERIF = os.path.dirname(HERE)
sys.path.insert(0, VERIF)

from vlib import build as vbuild  # noqa: E402

PY = "/venv/bin/python"


def load_known(prop):
    p = os.path.join(VERIF, "known_findings.json")
    if not os.path.exists(p):
        return []
    d = json.load(open(p))
    return [e for e in d.get("findings", []) if e.get("property") == prop]


def parse_san(text):
    """Split sanitizer log text into report blocks -> list of dict(kind, frame, text)."""
    reps = []
    blocks = re.split(r"(?m)^(?==+\d+==ERROR: AddressSanitizer|\S+:\d+:\d+: runtime error:)", text)
    for b in blocks:
        b = b.strip()
        if not b:
            continue
        m = re.match(r"=+\d+==ERROR: AddressSanitizer: (\S+)", b)
        if m:
            kind = "asan:" + m.group(1)
        else:
            m = re.match(r"(\S+):(\d+):\d+: runtime error: (.*)", b)
            if not m:
                continue
            msg = re.sub(r"-?\d[\d.e+\-]*|0x[0-9a-f]+|-?inf|nan", "N", m.group(3))
            kind = "ubsan:" + msg[:80]
        frame = None
        third_party = False
        for fm in re.finditer(r"#\d+ 0x[0-9a-f]+ in (\S+) (\S+?)(?::\d+)?(?::\d+)?$", b, re.M):
            fn, path = fm.group(1), fm.group(2)
            if "/esutil/" in path:
                frame = fn + "@" + os.path.basename(path)
                third_party = "/htm_src/" in path
                break
        if frame is None and kind.startswith("ubsan:"):
            m = re.match(r"(\S+):(\d+)", b)
            frame = os.path.basename(m.group(1))
            third_party = "/htm_src/" in m.group(1)
        reps.append({"kind": kind, "frame": frame, "third_party": third_party, "text": b[:3000]})
    return reps


def main(argv=None):
    ap = argparse.ArgumentParser(prog="check")
    ap.add_argument("prop")
    ap.add_argument("--tier", default=os.environ.get("VERIF_TIER", "quick"), choices=["quick", "thorough"])
    ap.add_argument("--replay")
    ap.add_argument("--jobs", type=int, default=int(os.environ.get("VERIF_JOBS", "16")))
    ap.add_argument("--no-san", action="store_true")
    ap.add_argument("--keep", action="store_true")
    ap.add_argument("--no-evidence", action="store_true")
    a = ap.parse_args(argv)
    prop = a.prop.upper()
    seed = int(os.environ.get("VERIF_SEED", "0"))
    repo = os.environ.get("VERIF_REPO", "/repo")
    t0 = time.time()
    mod = importlib.import_module("vlib.props." + prop.lower())
    native = getattr(mod, "NATIVE", False) and not a.no_san
    if a.replay:
        rp = json.load(open(a.replay))
        native = native and rp.get("san", False) or native
    inconclusive = []
    scratch = {}
    workdir = tempfile.mkdtemp(prefix="esv-work-")
    binfo = {}
    try:
        try:
            scratch["plain"], binfo["plain"] = vbuild.build(repo, "plain")
            if native:
                scratch["san"], binfo["san"] = vbuild.build(repo, "san")
        except Exception as e:
            print("INCONCLUSIVE property=%s reason=build-failed: %s" % (prop, str(e)[:2000]))
            return 2
        results = run_workers(prop, mod, a, seed, scratch, workdir, native)
        return decide(prop, mod, a, seed, results, binfo, t0, workdir, native)
    finally:
        for d in scratch.values():
            shutil.rmtree(d, ignore_errors=True)
        if a.keep:
            print("kept workdir", workdir)
        else:
            shutil.rmtree(workdir, ignore_errors=True)


def run_workers(prop, mod, a, seed, scratch, workdir, native):
    procs = []
    jobs = max(1, a.jobs)
    nplain = 1 if a.replay else min(jobs, getattr(mod, "MAX_WORKERS", 16))
    nsan = 0
    if native:
        nsan = 1 if a.replay else max(1, min(jobs // 2, getattr(mod, "MAX_SAN_WORKERS", 8)))
    stride = getattr(mod, "SAN_STRIDE", {"quick": 4, "thorough": 4}).get(a.tier, 4)
    wd_timeout = getattr(mod, "WATCHDOG", {"quick": 600, "thorough": 7200})[a.tier]
    case_timeout = int(os.environ.get("VERIF_CASE_TIMEOUT") or getattr(mod, "CASE_TIMEOUT", 120))
    os.makedirs(os.path.join(workdir, "san"), exist_ok=True)
    supp = os.path.join(VERIF, "vlib", "ubsan.supp")
    for kind, n in (("plain", nplain), ("san", nsan)):
        for k in range(n):
            wdir = os.path.join(workdir, "%s%d" % (kind, k))
            os.makedirs(wdir)
            out = os.path.join(workdir, "%s%d.json" % (kind, k))
            env = dict(os.environ)
            env.update({
                "PYTHONPATH": scratch[kind] + os.pathsep + VERIF,
                "VERIF_SCRATCH": scratch[kind], "VERIF_WORKDIR": wdir,
                "PYTHONHASHSEED": "0", "PIP_NO_INDEX": "1",
                "OMP_NUM_THREADS": "1", "OPENBLAS_NUM_THREADS": "1", "MKL_NUM_THREADS": "1",
                "PYTHONDONTWRITEBYTECODE": "1", "TMPDIR": wdir,
            })
            cmd = [PY, "-m", "vlib.worker", "--prop", prop, "--tier", a.tier,
                   "--seed", str(seed), "--shard", "%d/%d" % (k, n), "--out", out,
                   "--case-timeout", str(case_timeout)]
            if a.replay:
                cmd += ["--replay", os.path.abspath(a.replay)]
            if kind == "san":
                os.makedirs(os.path.join(wdir, "san"), exist_ok=True)
                env.update({
                    "LD_PRELOAD": vbuild.asan_runtime(),
                    "ASAN_OPTIONS": "detect_leaks=0:halt_on_error=0:abort_on_error=0:"
                                    "allocator_may_return_null=1:log_path=%s/san/asan" % wdir,
                    "UBSAN_OPTIONS": "print_stacktrace=1:halt_on_error=0:"
                                     "log_path=%s/san/ubsan:suppressions=%s" % (wdir, supp),
                    "PYTHONMALLOC": "malloc",
                })
                cmd += ["--san", "--stride", str(stride)]
            lf = open(os.path.join(workdir, "%s%d.log" % (kind, k)), "wb")
            p = subprocess.Popen(cmd, cwd=wdir, env=env, stdout=lf, stderr=subprocess.STDOUT)
            procs.append({"kind": kind, "k": k, "p": p, "out": out, "log": lf.name, "wdir": wdir})
    deadline = time.time() + wd_timeout
    for pr in procs:
        left = max(1, deadline - time.time())
        try:
            pr["rc"] = pr["p"].wait(timeout=left)
            pr["timed_out"] = False
        except subprocess.TimeoutExpired:
            pr["p"].kill()
            pr["p"].wait()
            pr["rc"] = None
            pr["timed_out"] = True
    for pr in procs:
        pr["res"] = None
        if os.path.exists(pr["out"]):
            try:
                pr["res"] = json.load(open(pr["out"]))
            except Exception:
                pr["res"] = None
        pr["cur"] = None
        if os.path.exists(pr["out"] + ".cur"):
            try:
                pr["cur"] = json.load(open(pr["out"] + ".cur"))
            except Exception:
                pass
        try:
            pr["logtail"] = open(pr["log"], "rb").read()[-3000:].decode("utf8", "replace")
        except Exception:
            pr["logtail"] = ""
        # sanitizer logs not yet attributed (e.g. after a crash)
        pr["san_unattributed"] = ""
        if pr["kind"] == "san" and pr["res"] is None:
            txt = ""
            sd = os.path.join(pr["wdir"], "san")
            for f in sorted(os.listdir(sd)):
                txt += open(os.path.join(sd, f), "rb").read().decode("utf8", "replace")
            pr["san_unattributed"] = txt
    return procs


def vclass(v):
    if v.get("key"):
        return (v["monitor"], v["key"])
    fam = (v.get("case") or {}).get("family", "?")
    return (v["monitor"], fam + ":" + re.sub(r"-?\d[\d.e+\-]*", "N", v["what"])[:70])


def decide(prop, mod, a, seed, procs, binfo, t0, workdir, native):
    inconclusive = []
    counts, fam_counts, sigs, calls = {}, {}, {}, {}
    violations, samples, c15, oracle_errors = [], [], [], []
    c15_checked = 0
    c15_funcs = {}
    n_timeouts = 0
    ran = {"plain": 0, "san": 0}
    san_reports = []
    info = {}
    ndropped = 0
    for pr in procs:
        res = pr["res"]
        tag = "%s%d" % (pr["kind"], pr["k"])
        if pr["timed_out"]:
            inconclusive.append("worker %s hit the wall-clock watchdog (case %r)" % (tag, pr["cur"]))
            continue
        if res is None or pr["rc"] != 0:
            # crashed: a signal while a case was open is a witness
            if pr["cur"] is not None and pr["rc"] is not None and pr["rc"] < 0:
                violations.append({"monitor": prop + ".crash", "what": "worker killed by signal %d during case" % (-pr["rc"]),
                                   "key": None, "case": pr["cur"], "witness": {"log": pr["logtail"][-1500:]},
                                   "san": pr["kind"] == "san", "events": []})
                if pr["san_unattributed"]:
                    for r in parse_san(pr["san_unattributed"]):
                        if not r["third_party"]:
                            san_reports.append(dict(r, case=pr["cur"]))
            else:
                inconclusive.append("worker %s exited rc=%r without result: %s" % (tag, pr["rc"], pr["logtail"][-600:]))
            continue
        if res.get("fatal"):
            inconclusive.append("worker %s fatal: %s" % (tag, res["fatal"][-1200:]))
            continue
        ran[pr["kind"]] += res["ran"]
        n_timeouts += res["n_timeouts"]
        for t in res["timeouts"][:2]:
            inconclusive.append("case timeout in %s: %r" % (tag, t))
        for m, c in res["counts"].items():
            d = counts.setdefault(m, {"ok": 0, "violation": 0, "skipped": {}})
            d["ok"] += c["ok"]
            d["violation"] += c["violation"]
            for r, n in c["skipped"].items():
                d["skipped"][r] = d["skipped"].get(r, 0) + n
        for f, c in res["fam_counts"].items():
            d = fam_counts.setdefault(f, {"ok": 0, "violation": 0, "skipped": 0, "cases": 0})
            for kk in d:
                d[kk] += c.get(kk, 0)
        for m, s in res["sigs"].items():
            sigs.setdefault(m, set()).update(s)
        for l, n in res["calls"].items():
            calls[l] = calls.get(l, 0) + n
        for v in res["violations"]:
            v["san"] = pr["kind"] == "san"
            violations.append(v)
        ndropped += res["nviol_dropped"]
        if pr["kind"] == "plain":
            samples.extend(res["samples"])
        c15.extend(res["c15"])
        c15_checked += res["c15_checked"]
        for l, s in res["c15_funcs"].items():
            c15_funcs.setdefault(l, set()).update(s)
        oracle_errors.extend(res["oracle_errors"])
        for k2, v2 in res.get("info", {}).items():
            if isinstance(v2, (int, float)) and not isinstance(v2, bool):
                if k2.startswith("max_"):
                    info[k2] = max(info.get(k2, v2), v2)
                else:
                    info[k2] = info.get(k2, 0) + v2
            elif isinstance(v2, list):
                info.setdefault(k2, [])
                for x in v2:
                    if x not in info[k2] and len(info[k2]) < 200:
                        info[k2].append(x)
            elif isinstance(v2, dict):
                d = info.setdefault(k2, {})
                for k3, v3 in v2.items():
                    if isinstance(v3, (int, float)):
                        d[k3] = d.get(k3, 0) + v3
                    else:
                        d[k3] = v3
            else:
                info[k2] = v2
        for sr in res.get("san_reports", []):
            for r in parse_san(sr["text"]):
                if r["third_party"]:
                    continue
                san_reports.append(dict(r, case=sr["case"]))

    if oracle_errors:
        inconclusive.append("%d monitor/driver errors, first: %s" % (
            len(oracle_errors), json.dumps(oracle_errors[0])[:1500]))

    # sanitizer reports in esutil's own sources are witnesses for this property
    seen = set()
    san_ignored = set()
    for r in san_reports:
        cls = (r["kind"], r["frame"])
        if cls in seen:
            continue
        if hasattr(mod, "san_relevant") and not mod.san_relevant(r):
            san_ignored.add("%s in %s" % cls)
            continue
        seen.add(cls)
        key = None
        if hasattr(mod, "classify_san"):
            key = mod.classify_san(r)
        violations.append({"monitor": prop + ".sanitizer", "what": "%s in %s" % (r["kind"], r["frame"]),
                           "key": key, "case": r["case"], "witness": {"report": r["text"][:2500]},
                           "san": True, "events": []})

    # C15 snapshot differences decide only in C15's own runs
    if prop == "C15":
        for d in c15:
            key = mod.classify_c15(d) if hasattr(mod, "classify_c15") else None
            violations.append({"monitor": "C15.snapshot", "what": "%s modified its argument %s (%s; %s)" % (
                d["func"], d["arg"], ",".join(d["changed"]), d["layout"]), "key": key,
                "case": d["case"], "witness": d, "san": False, "events": []})

    # only this property's monitors decide
    mine = [v for v in violations if v["monitor"].startswith(prop + ".")]
    side = [v for v in violations if not v["monitor"].startswith(prop + ".")]

    known = load_known(prop)
    known_keys = {e["key"]: e for e in known if e.get("status") == "known"}
    matched = {}
    new = {}
    for v in mine:
        if v.get("key") in known_keys:
            matched.setdefault(v["key"], []).append(v)
        else:
            new.setdefault(vclass(v), []).append(v)

    # required monitor evaluations
    req = getattr(mod, "REQUIRED", {})
    req = req.get(a.tier, req) if req and isinstance(next(iter(req.values())), dict) else req
    rounds = getattr(mod, "THOROUGH_ROUNDS", 1) if a.tier == "thorough" else 1
    margin = None
    if not a.replay:
        for m, n in req.items():
            n = n * rounds
            have = counts.get(m, {}).get("ok", 0) + counts.get(m, {}).get("violation", 0)
            if margin is None or have / float(n) < margin:
                margin, margin_mon = have / float(n), m
            if have < n:
                inconclusive.append("monitor %s evaluated %d < %d times" % (m, have, n))
        for f, c in fam_counts.items():
            if c["cases"] > 0 and c["ok"] + c["violation"] == 0:
                inconclusive.append("family %s: %d cases but no oracle evaluation" % (f, c["cases"]))
        if native and ran["san"] == 0:
            inconclusive.append("no case ran on the sanitizer build")

    os.makedirs(os.path.join(VERIF, "replays"), exist_ok=True)
    lines = []
    for cls, vs in sorted(new.items(), key=lambda kv: str(kv[0])):
        v = vs[0]
        fam = (v.get("case") or {}).get("family", "x")
        h = hashlib.sha1(json.dumps([cls, v.get("case")], sort_keys=True, default=str).encode()).hexdigest()[:10]
        rpath = os.path.join("replays", "%s-%s-%s.json" % (prop, re.sub(r"[^A-Za-z0-9_.-]", "_", fam), h))
        with open(os.path.join(VERIF, rpath), "w") as f:
            json.dump({"property": prop, "seed": seed, "tier": a.tier, "case": v.get("case"),
                       "monitor": v["monitor"], "what": v["what"], "key": v.get("key"),
                       "witness": v.get("witness"), "events": v.get("events"), "san": v.get("san", False),
                       "count_in_class": len(vs)}, f, indent=1, default=str)
        lines.append("VIOLATION property=%s replay=%s" % (prop, rpath))
        print("  [%s] %s (x%d)" % (v["monitor"], v["what"][:300], len(vs)))
    for ln in lines[:25]:
        print(ln)
    if a.replay:
        for k, vs in matched.items():
            print("KNOWN-FINDING: property=%s %s (observed=%d)" % (prop, known_keys[k]["what"], len(vs)))
    else:
        for k, e in known_keys.items():
            print("KNOWN-FINDING: property=%s %s (key=%s observed=%d)" % (prop, e["what"], k, len(matched.get(k, []))))

    my_counts = {m: c for m, c in counts.items() if m.startswith(prop + ".")}
    evaluations = sum(c["ok"] + c["violation"] for c in my_counts.values())
    distinct = len(set().union(*[sigs[m] for m in sigs if m.startswith(prop + ".")])) if sigs else 0
    wall = round(time.time() - t0, 2)
    status = "violated" if new else ("inconclusive" if inconclusive else "held")
    ev = {
        "property_id": prop, "tier": a.tier, "seed": seed, "level": "exploration",
        "coverage": {
            "evaluations": int(evaluations),
            "distinct_nontrivial": int(distinct),
            "rule": getattr(mod, "RULE", ""),
            "samples": samples[:6] if samples else [],
            "exhaustive": False,
            "trusted_base": getattr(mod, "TRUSTED", []),
            "verdict": status,
            "cases_run": ran,
            "generator_rounds": rounds,
            "monitor_counts": my_counts,
            "family_counts": fam_counts,
            "wrapped_calls_observed": calls,
            "skips": {m: c["skipped"] for m, c in my_counts.items() if c["skipped"]},
            "sanitizer": {"enabled": bool(native), "cases_on_san_build": ran["san"],
                          "reports_in_esutil_sources": len(san_reports),
                          "distinct_report_classes": len(seen),
                          "report_classes_not_bearing_on_this_property": sorted(san_ignored)},
            "argument_snapshots": {"arrays_snapshotted": c15_checked,
                                   "functions_observed": len(c15_funcs),
                                   "differences_seen": len(c15)},
            "known_findings_matched": {k: len(v) for k, v in matched.items()},
            "side_observations_other_properties": sorted(set("%s: %s" % (v["monitor"], v["what"][:100]) for v in side))[:20],
            "c15_side_observations": sorted(set("%s arg %s" % (d["func"], d["arg"]) for d in c15))[:20] if prop != "C15" else [],
            "inconclusive_reasons": inconclusive[:10],
            "build": binfo,
            "extra": info,
        },
        "assumptions": getattr(mod, "ASSUMPTIONS", []),
        "wall_s": wall,
        "violations": len(new),
    }
    if prop == "C15":
        ev["coverage"]["function_layout_pairs"] = sum(len(s) for s in c15_funcs.values())
        ev["coverage"]["functions"] = {k: sorted(v) for k, v in sorted(c15_funcs.items())}
    if hasattr(mod, "evidence_extra"):
        try:
            ev["coverage"].update(mod.evidence_extra(info, counts, sigs))
        except Exception as e:
            ev["coverage"]["evidence_extra_error"] = repr(e)
    if not a.replay and not a.no_evidence:
        os.makedirs(os.path.join(VERIF, "evidence"), exist_ok=True)
        if not ev["coverage"]["samples"]:
            ev["coverage"]["samples"] = ["(no sample recorded)"]
        with open(os.path.join(VERIF, "evidence", prop + ".json"), "w") as f:
            json.dump(ev, f, indent=1, default=str)
    print("%s %s tier=%s seed=%d: %s; evaluations=%d distinct=%d cases=%r san_reports=%d wall=%.1fs%s" % (
        prop, "replay" if a.replay else "check", a.tier, seed, status, evaluations, distinct, ran, len(san_reports), wall,
        "" if margin is None else " required-counts-margin=%.2f(%s)" % (margin, margin_mon)))
    if new:
        return 1
    if inconclusive:
        for r in inconclusive[:6]:
            print("INCONCLUSIVE property=%s reason=%s" % (prop, r[:1500]))
        return 2
    return 0


if __name__ == "__main__":
    try:
        rc = main()
    except SystemExit:
        raise
    except BaseException as e:  # a failure of the machinery itself is never a verdict about the property
        import traceback
        traceback.print_exc()
        print("INCONCLUSIVE reason=the checker itself failed: %s: %s" % (type(e).__name__, str(e)[:300]))
        rc = 2
    sys.exit(rc)
