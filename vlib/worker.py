"""Worker process: runs one shard of a property's workload against the scratch
build under the monitors and writes a JSON result file."""
import argparse
import glob
import importlib
import json
import os
import signal
import sys
import time
import traceback




def _alarm(signum, frame):
    from vlib.probe import CaseTimeout
    raise CaseTimeout()


def main():
    ap = argparse.ArgumentParser()
    ap.add_argument("--prop", required=True)
    ap.add_argument("--tier", default="quick")
    ap.add_argument("--seed", type=int, default=0)
    ap.add_argument("--shard", default="0/1")
    ap.add_argument("--out", required=True)
    ap.add_argument("--replay")
    ap.add_argument("--san", action="store_true")
    ap.add_argument("--stride", type=int, default=1)
    ap.add_argument("--case-timeout", type=int, default=120)
    a = ap.parse_args()
    k, n = map(int, a.shard.split("/"))
    scratch = os.environ["VERIF_SCRATCH"]
    workdir = os.environ["VERIF_WORKDIR"]
    out = {"shard": a.shard, "san": a.san, "fatal": None, "pid": os.getpid()}
    t0 = time.time()
    try:
        import numpy as np  # noqa
        import esutil
        if not os.path.realpath(esutil.__file__).startswith(os.path.realpath(scratch)):
            raise RuntimeError("esutil imported from %s, not scratch %s" % (esutil.__file__, scratch))
        exts = {}
        for modname in ("esutil.recfile._records", "esutil.htm._htmc", "esutil.cosmology._cosmolib",
                        "esutil.stat._chist", "esutil.integrate._cgauleg"):
            m = importlib.import_module(modname)
            if not os.path.realpath(m.__file__).startswith(os.path.realpath(scratch)):
                raise RuntimeError("%s from %s" % (modname, m.__file__))
            exts[modname] = os.path.basename(m.__file__)
        import esutil.stat.util as su
        import esutil.integrate.util as iu
        if not su.have_chist or not iu.have_cgauleg:
            raise RuntimeError("compiled engines not enabled")
        from vlib import probe
        from vlib.probe import CaseTimeout
        mod = importlib.import_module("vlib.props." + a.prop.lower())
        mod.install()
        if a.replay:
            rp = json.load(open(a.replay))
            cases = [rp["case"]]
            a.seed = rp.get("seed", a.seed)
        else:
            # the thorough tier repeats the property's generator over several derived seeds (THOROUGH_ROUNDS)
            rounds = getattr(mod, "THOROUGH_ROUNDS", 1) if a.tier == "thorough" else 1
            cases = []
            for rnd in range(rounds):
                for c in mod.cases(a.seed + 1000 * rnd, a.tier):
                    c = dict(c)
                    c["_round"] = rnd
                    cases.append(c)
        out["ncases_total"] = len(cases)
        signal.signal(signal.SIGALRM, _alarm)
        marker = a.out + ".cur"
        ran = 0
        san_seen = {}
        san_reports = []
        timeouts = []
        COL = probe.COL
        for i, case in enumerate(cases):
            if not a.replay:
                if a.san and (i % a.stride) != 0:
                    continue
                j = i // a.stride if a.san else i
                if j % n != k:
                    continue
            case = dict(case)
            case["_i"] = i
            COL.case = case
            COL.case_events = []
            COL._f()["cases"] += 1
            with open(marker, "w") as f:
                json.dump(case, f)
            signal.alarm(a.case_timeout)
            try:
                os.environ["VERIF_CASEDIR"] = workdir
                mod.run_case(case)
            except CaseTimeout:
                timeouts.append(case)
                if len(timeouts) >= 5:
                    # a tree on which case after case hangs: the run is inconclusive whatever the rest does
                    signal.alarm(0)
                    break
            except Exception as e:
                # Where was it raised?  An exception that comes out of the library itself, during a call the driver
                # makes unguarded because it is in-domain (it returns on the unchanged tree, or this very run would be
                # inconclusive there), means the library did not return what the property says it returns: a
                # violation.  Anything raised in the driver's or the monitors' own code stays a machinery error.
                tb = traceback.extract_tb(e.__traceback__)
                inner = tb[-1].filename if tb else ""
                lib = os.path.realpath(os.path.join(scratch, "esutil")) + os.sep
                through = [f for f in tb if os.path.realpath(f.filename).startswith(lib)]
                if through and (os.path.realpath(inner).startswith(lib) or "site-packages" in inner or inner.startswith("<")):
                    where = "%s:%d in %s" % (os.path.relpath(through[-1].filename, scratch), through[-1].lineno, through[-1].name)
                    COL.violation("%s.raised" % a.prop, "a call made by the driver raised %s: %s (%s)" % (type(e).__name__, str(e)[:140], where),
                                  {"traceback": traceback.format_exc()[-1200:]}, key=None)
                else:
                    COL.oracle_errors.append({"label": "driver", "err": repr(e),
                                              "tb": traceback.format_exc()[-2000:], "case": case})
            finally:
                signal.alarm(0)
            ran += 1
            if a.san:
                for lp in glob.glob(os.path.join(workdir, "san", "*.%d" % os.getpid())):
                    sz = os.path.getsize(lp)
                    old = san_seen.get(lp, 0)
                    if sz > old:
                        with open(lp, "rb") as f:
                            f.seek(old)
                            txt = f.read().decode("utf8", "replace")
                        san_seen[lp] = sz
                        san_reports.append({"case": case, "text": txt[:6000],
                                            "log": os.path.basename(lp)})
        COL.case = None
        if hasattr(mod, "finish"):
            mod.finish()
        try:
            os.unlink(marker)
        except OSError:
            pass
        out.update(probe.COL.dump())
        out["ran"] = ran
        out["timeouts"] = timeouts[:10]
        out["n_timeouts"] = len(timeouts)
        out["san_reports"] = san_reports[:200]
        out["exts"] = exts
    except BaseException as e:
        out["fatal"] = repr(e) + "\n" + traceback.format_exc()[-3000:]
    out["wall_s"] = round(time.time() - t0, 2)
    with open(a.out, "w") as f:
        json.dump(out, f)


if __name__ == "__main__":
    main()
