"""pytest plugin: run the repository's own tests with every property's wrappers and online oracles installed.
Loaded with `-p vlib.pytest_monitor`; each xdist worker (or the single process) dumps its collector to
$VERIF_MONITOR_OUT/<pid>.json at session end.  Used by tools/suite_under_monitor.py."""
import importlib
import json
import os

PROPS = ["c05", "c06", "c07", "c08", "c09", "c10", "c11", "c12", "c13", "c14", "c16", "c17", "c18", "c19", "c15"]


def pytest_configure(config):
    from vlib import probe
    for p in PROPS:
        try:
            importlib.import_module("vlib.props." + p).install()
        except Exception as e:          # a monitor that cannot be installed is reported, not hidden
            probe.COL.oracle_errors.append({"label": "install:" + p, "err": repr(e)})
    probe.COL.case = {"family": "repo-test-suite"}


def pytest_runtest_setup(item):
    from vlib import probe
    probe.COL.case = {"family": "repo-test-suite", "test": item.nodeid}
    probe.COL.case_events = []


def pytest_sessionfinish(session, exitstatus):
    from vlib import probe
    out = os.environ.get("VERIF_MONITOR_OUT")
    if out:
        os.makedirs(out, exist_ok=True)
        with open(os.path.join(out, "%d.json" % os.getpid()), "w") as f:
            json.dump(probe.COL.dump(), f, default=str)
