"""C03 Appends accumulate: file equals the concatenation of all writes.

Shape: history + executable model.  Each case is a random operation sequence over one path; the driver issues every
operation through the real (wrapped) API, records call/return events with the file's length and SHA-1 before and
after, and steps a small sequential model (list of chunks, user header, delimiter) alongside.  Whenever no write
handle is open the file is judged against the model: full read == concatenation, _SIZE == total, user header
unchanged, SIZE line and data section of the file itself."""
import hashlib
import os

import numpy as np

from vlib import gen, probe
from vlib.probe import COL
from vlib.props import recshared as rs

ID = "C03"
NATIVE = True
SAN_STRIDE = {"quick": 3, "thorough": 4}
RULE = ("seeded operation histories of length 2-12 over one path from {create by sfile.write, create through an open "
        "SFile('w'/'w+') handle, write again on the same handle, close, reopen 'r+' and write (once or several times), "
        "sfile.write(append=True) incl. on a missing file, overwrite, incompatible append (other names / field count / "
        "type / sub-array shape; binary: other byte order) through either route, read-back}; chunks of 1-40 rows; C01 "
        "binary dtypes with raw cell bytes and C04 integer/string text dtypes (text chunks also in the opposite byte "
        "order) with delimiters None , tab space :; headers as in C01; signature = (form, delimiter, sequence of "
        "operation kinds)")
TRUSTED = ["numpy concatenate / tobytes", "hashlib.sha1 of the file bytes"]
ASSUMPTIONS = ["chunks have >= 1 row; one writer at a time; the file is judged only while no write handle is open "
               "(stdio buffering makes the on-disk state mid-handle unspecified)",
               "text histories use integer and simple ASCII string fields so equality is exact (float text precision is C04)"]
THOROUGH_ROUNDS = 3      # the thorough tier runs the generator over this many derived seeds
REQUIRED = {"quick": {"C03.history": 400, "C03.state": 1500, "C03.reject": 250},
            "thorough": {"C03.history": 6000, "C03.state": 22000, "C03.reject": 4000}}
DELIMS = [None, None, ",", "\t", " ", ":"]


def cases(seed, tier):
    n = 480 if tier == "quick" else 7200
    rng = np.random.default_rng([seed, 3])
    for i in range(n):
        yield {"family": ["binary", "text"][(i % 6) >= 2], "delim": DELIMS[i % 6], "sub": int(rng.integers(0, 2**31))}
    # header-less record files written through the recfile layer itself
    for i in range(n // 4):
        yield {"family": "raw-" + ["binary", "text"][(i % 6) >= 2], "delim": DELIMS[i % 6], "sub": int(rng.integers(0, 2**31))}


def install():
    rs.instrument_all()


# ---------------------------------------------------------------------------------------------------------------

def simple_strings(rng, t):
    for nm in t.dtype.names:
        b = t.dtype.fields[nm][0].base
        if b.kind == "S":
            v = t[nm]
            alphabet = np.array(list("abcXYZ019_"))
            vals = ["".join(rng.choice(alphabet, size=int(rng.integers(1, b.itemsize + 1)))) for _ in range(max(v.size, 1))]
            v[...] = np.array(vals, dtype=b).reshape(v.shape)
    return t


def new_chunk(rng, dtype, text, nrows=None):
    n = nrows or int(rng.choice([1, 1, 2, 3, 7, 40]))
    a = np.zeros(n, dtype=dtype)
    if text:
        rs.fill_text(rng, a)
        simple_strings(rng, a)
    else:
        gen.fill(rng, a, raw=True)
    return a


def swapped_order(a):
    """same values, every multi-byte field declared and stored in the opposite byte order"""
    descr = []
    for d in a.dtype.descr:
        t = d[1]
        if t[0] in "<>":
            t = (">" if t[0] == "<" else "<") + t[1:]
        descr.append((d[0], t) + tuple(d[2:]))
    out = np.zeros(a.shape, dtype=descr)
    for nm in a.dtype.names:
        out[nm] = a[nm]
    return out


def incompatible(rng, dtype, text):
    """a dtype that the file must reject; returns (dtype, kind)"""
    descr = [tuple(d) for d in dtype.descr]
    kinds = ["names", "count-more", "count-less", "type", "shape", "reshape"] + ([] if text else ["byteorder"])
    rng.shuffle(kinds)
    for k in kinds:
        d2 = list(descr)
        i = int(rng.integers(0, len(d2)))
        if k == "names":
            d2[i] = (d2[i][0] + "q",) + d2[i][1:]
        elif k == "count-more":
            d2.append(("extra_q", "<i4"))
        elif k == "count-less":
            if len(d2) < 2:
                continue
            d2.pop(i)
        elif k == "type":
            t = d2[i][1]
            base = np.dtype(t)
            if base.kind in "iu":
                nt = t[0] + ("i" if base.kind == "i" else "u") + str({1: 2, 2: 4, 4: 8, 8: 4}[base.itemsize])
                if base.itemsize == 1:
                    nt = "<" + nt[1:]
            elif base.kind == "f":
                nt = t[0] + "f" + str({4: 8, 8: 4}[base.itemsize])
            elif base.kind == "S":
                nt = "|S%d" % (base.itemsize + 1)
            elif base.kind == "c":
                nt = t[0] + "c" + str({8: 16, 16: 8}[base.itemsize])
            else:
                nt = "|i1" if base.kind == "b" else "<i4"
            d2[i] = (d2[i][0], nt) + d2[i][2:]
        elif k == "shape":
            if len(d2[i]) == 3:
                shp = d2[i][2] if isinstance(d2[i][2], tuple) else (d2[i][2],)
                d2[i] = (d2[i][0], d2[i][1], shp[:-1] + (shp[-1] + 1,))
            else:
                d2[i] = (d2[i][0], d2[i][1], (2,))
        elif k == "reshape":
            # the same number of elements in another arrangement: (2,3) as (6,) or (3,2), (n,) as (1,n), a scalar as (1,)
            arr_fields = [j for j, d in enumerate(d2) if len(d) == 3]
            if arr_fields and rng.random() < .8:
                i = arr_fields[int(rng.integers(0, len(arr_fields)))]
            if len(d2[i]) == 3:
                shp = d2[i][2] if isinstance(d2[i][2], tuple) else (d2[i][2],)
                cands = [c for c in ((int(np.prod(shp)),), tuple(shp[::-1]), (1,) + tuple(shp)) if c != tuple(shp)]
                d2[i] = (d2[i][0], d2[i][1], cands[int(rng.integers(0, len(cands)))])
            else:
                d2[i] = (d2[i][0], d2[i][1], (1,))
        elif k == "byteorder":
            cand = [j for j, d in enumerate(d2) if d[1][0] in "<>"]
            if not cand:
                continue
            j = cand[int(rng.integers(0, len(cand)))]
            t = d2[j][1]
            d2[j] = (d2[j][0], (">" if t[0] == "<" else "<") + t[1:]) + d2[j][2:]
        return np.dtype(d2), k
    return np.dtype(descr + [("extra_q", "<i4")]), "count-more"


class Model:
    def __init__(self):
        self.exists = False
        self.chunks = []
        self.header = None
        self.delim = None

    def create(self, chunk, header, delim):
        self.exists, self.chunks, self.header, self.delim = True, [chunk], header, delim

    def append(self, chunk):
        self.chunks.append(chunk)

    def total(self):
        return sum(c.size for c in self.chunks)


def file_state(path):
    if not os.path.exists(path):
        return (None, None)
    raw = open(path, "rb").read()
    return (len(raw), hashlib.sha1(raw).hexdigest())


def gen_history(rng, text):
    """list of op kinds; preconditions tracked with (exists, handle-open)"""
    L = int(rng.integers(2, 13))
    ops = []
    exists, hopen = False, False
    while len(ops) < L:
        if not exists:
            op = ["create-sfile", "create-handle", "append-missing"][int(rng.integers(0, 3))]
            exists = True
            hopen = op.startswith("create-handle")
        elif hopen:
            op = ["write-again", "write-again", "close", "incompat-handle"][int(rng.integers(0, 4))]
            if op == "close":
                hopen = False
        else:
            op = ["append-fn", "append-fn", "reopen-write", "reopen-write-keep", "overwrite", "incompat-fn", "incompat-reopen",
                  "read-back", "append-fn-other-header", "remove"][int(rng.integers(0, 10))]
            if op == "reopen-write-keep":
                hopen = True
            if op == "remove":
                exists = False
        ops.append(op)
    if hopen:
        ops.append("close")
    return ops


def run_raw(case):
    """The same statement one layer down: a header-less record file created by Recfile(mode='w') and grown by
    re-opening it in mode 'r+' (object or the recfile.write function), several writes per handle or one.  There is no
    stored row count here; the file must hold the concatenation of the chunks (binary: byte for byte)."""
    from esutil import recfile
    rng = np.random.default_rng(case["sub"])
    delim = case["delim"]
    text = delim is not None
    d = os.environ.get("VERIF_CASEDIR", ".")
    path = os.path.join(d, "c03raw_%d.rec" % case["_i"])
    if os.path.exists(path):
        os.unlink(path)
    proto = rs.text_table(rng, nrows=1, exact=True) if text else rs.bin_table(rng, nrows=1)
    dtype = proto.dtype
    form = "raw-text" if text else "raw-binary"
    L = int(rng.integers(2, 8))
    ops = ["create"] + [["reopen-handle", "reopen-fn", "reopen-handle-many", "overwrite", "read-back"][int(rng.integers(0, 5))] for _ in range(L)]
    wit0 = {"descr": repr(dtype.descr)[:300], "delim": delim, "ops": ops}
    COL.sample({"delim": delim, "descr": repr(dtype.descr)[:140], "ops": ops}, limit=4)
    model = Model()
    okall = True

    def w(c):
        return gen.maybe_view(rng, c.copy(), p=0.2)

    for step, op in enumerate(ops):
        cs = [new_chunk(rng, dtype, text) for _ in range(int(rng.integers(2, 4)) if op in ("create", "reopen-handle-many") and rng.random() < .7 else 1)]

        def f():
            if op in ("create", "overwrite"):
                with recfile.Recfile(path, mode="w", delim=delim) as r:
                    for c in cs:
                        r.write(w(c))
            elif op in ("reopen-handle", "reopen-handle-many"):
                with recfile.Recfile(path, mode="r+", dtype=dtype, delim=delim) as r:
                    for c in cs:
                        r.write(w(c))
            elif op == "reopen-fn":
                recfile.write(path, w(cs[0]), mode="r+", dtype=dtype, delim=delim)
        if op != "read-back":
            before = file_state(path)
            res, e = probe.attempt(f)
            COL.event(dict(op=op, before=before, after=file_state(path), raised=type(e).__name__ if e else None))
            if e is not None:
                COL.violation("C03.history", "%s (step %d) on a header-less record file raised %s: %s" % (op, step, type(e).__name__, str(e)[:160]),
                              dict(wit0, step=step))
                okall = False
                break
            if op in ("create", "overwrite"):
                model.create(cs[0], None, delim)
                for c in cs[1:]:
                    model.append(c)
            else:
                for c in (cs if op != "reopen-fn" else cs[:1]):
                    model.append(c)
        exp = expected_table(model, text)
        sig = (form, delim, op, min(len(model.chunks), 4))
        bad = None
        if not text:
            raw = open(path, "rb").read()
            if raw != exp.tobytes():
                bad = "the file holds %d bytes, the %d chunks written so far %d%s" % (
                    len(raw), len(model.chunks), exp.nbytes, "" if len(raw) != exp.nbytes else " (same size, other content)")
        if bad is None:
            got, e = probe.attempt(recfile.read, path, dtype=dtype, delim=delim)
            if e is not None:
                bad = "recfile.read raised %s: %s" % (type(e).__name__, str(e)[:140])
            elif got.size != exp.size:
                bad = "read returns %d rows, %d were written" % (got.size, exp.size)
            elif text and not all(rs.text_cells_equal(exp[n], got[n])[0] for n in exp.dtype.names):
                bad = "read differs from the concatenation of the written chunks"
            elif not text and got.tobytes() != exp.tobytes():
                bad = "read differs from the concatenation of the written chunks"
        if bad:
            COL.violation("C03.state", "header-less file after %s (step %d): %s" % (op, step, bad),
                          dict(wit0, step=step, chunks=[int(c.size) for c in model.chunks]), key=None)
            okall = False
            break
        COL.ok("C03.state", sig)
    if okall:
        COL.ok("C03.history", (form, delim, tuple(ops)))
    try:
        os.unlink(path)
    except OSError:
        pass


def run_case(case):
    if case["family"].startswith("raw-"):
        return run_raw(case)
    from esutil import sfile
    rng = np.random.default_rng(case["sub"])
    delim = case["delim"]
    text = delim is not None
    d = os.environ.get("VERIF_CASEDIR", ".")
    path = os.path.join(d, "c03_%d.rec" % case["_i"])
    if os.path.exists(path):
        os.unlink(path)
    # the name as the library is given it: one case in five spells the directory as ~ or as an environment variable
    # (both documented as accepted); the driver itself always inspects the real path
    lpath = path
    sp = rng.random()
    if sp < .2:
        os.environ["VERIF_C03_DATA"] = d
        os.environ["HOME"] = d
        lpath = ("$VERIF_C03_DATA/" if sp < .1 else "~/") + os.path.basename(path)
    if text:
        proto = rs.text_table(rng, nrows=1, exact=True)
    else:
        proto = rs.bin_table(rng, nrows=1)
    dtype = proto.dtype
    ops = gen_history(rng, text)
    model = Model()
    handle = [None]
    form = "text" if text else "binary"
    wit0 = {"descr": repr(dtype.descr)[:300], "delim": delim, "ops": ops}
    COL.sample({"delim": delim, "descr": repr(dtype.descr)[:140], "ops": ops}, limit=8)
    failed = [False]

    def chunk():
        c = new_chunk(rng, dtype, text)
        if text and rng.random() < .35:
            c = swapped_order(c)
        return c

    def ev(op, before, after, **kw):
        COL.event(dict(op=op, before=before, after=after, **kw))

    def viol(mon, what, **kw):
        failed[0] = True
        COL.violation(mon, what, dict(wit0, **kw), key=kw.get("key"))

    def do(op, fn):
        before = file_state(path)
        res, e = probe.attempt(fn)
        after = file_state(path)
        ev(op, before, after, raised=type(e).__name__ if e else None)
        return res, e, before, after

    def reject(op, fn, kind, via_handle):
        """an incompatible append: must raise and must not change the file"""
        res, e, before, after = do(op, fn)
        sig = (form, delim, op, kind)
        if e is None:
            viol("C03.reject", "%s: append of an incompatible chunk (%s differs) was accepted" % (op, kind), kind=kind)
            return False
        if not via_handle and before != after:
            viol("C03.reject", "%s: rejected append (%s) changed the file's bytes (%r -> %r)" % (op, kind, before[0], after[0]), kind=kind)
            return False
        COL.ok("C03.reject", sig)
        return True

    def wcopy(c):
        # what is handed to the writer: a private copy, sometimes as a non-contiguous view of a larger buffer
        return gen.maybe_view(rng, c.copy(), p=0.25)

    for step, op in enumerate(ops):
        if failed[0]:
            break
        if op in ("create-sfile", "overwrite", "append-missing"):
            c, hdr = chunk(), rs.rand_header(rng)
            if text and c.dtype != dtype:
                pass
            kw = dict(header=hdr, delim=delim)
            if op == "append-missing":
                kw["append"] = True
            res, e, b, a = do(op, lambda: sfile.write(lpath, wcopy(c), **kw))
            if e is not None:
                viol("C03.history", "%s raised %s: %s" % (op, type(e).__name__, str(e)[:160]), step=step,
                     key="append/missing-file-not-created" if op == "append-missing" and isinstance(e, (FileNotFoundError, OSError, RuntimeError)) else None)
                break
            model.create(c, hdr, delim)
        elif op in ("create-handle", "create-handle-w+"):
            c, hdr = chunk(), rs.rand_header(rng)
            mode = "w+" if op.endswith("w+") else "w"

            def f():
                handle[0] = sfile.SFile(lpath, mode, delim=delim)
                handle[0].write(wcopy(c), header=hdr)
            res, e, b, a = do(op, f)
            if e is not None:
                viol("C03.history", "%s raised %s: %s" % (op, type(e).__name__, str(e)[:160]), step=step)
                break
            model.create(c, hdr, delim)
        elif op == "write-again":
            c = chunk()
            res, e, b, a = do(op, lambda: handle[0].write(wcopy(c), header=(rs.rand_header(rng) if rng.random() < .3 else None)))
            if e is not None:
                viol("C03.history", "write-again on the open handle raised %s: %s" % (type(e).__name__, str(e)[:160]), step=step)
                break
            model.append(c)
        elif op == "close":
            do(op, lambda: handle[0].close())
            handle[0] = None
        elif op in ("append-fn", "append-fn-other-header"):
            c = chunk()
            kw = dict(append=True)
            if op.endswith("other-header"):
                kw["header"] = {"other": "header", "a": 99}
            if rng.random() < .5:
                kw["delim"] = delim          # delim= is documented as ignored when the file exists
            res, e, b, a = do(op, lambda: sfile.write(lpath, wcopy(c), **kw))
            if e is not None:
                viol("C03.history", "%s raised %s: %s" % (op, type(e).__name__, str(e)[:160]), step=step)
                break
            model.append(c)
        elif op in ("reopen-write", "reopen-write-keep"):
            k = 1 if op == "reopen-write-keep" else int(rng.integers(1, 4))
            cs = [chunk() for _ in range(k)]

            def f():
                handle[0] = sfile.SFile(lpath, "r+")
                for c in cs:
                    handle[0].write(wcopy(c))
                if op == "reopen-write":
                    handle[0].close()
                    handle[0] = None
            res, e, b, a = do(op, f)
            if e is not None:
                viol("C03.history", "%s raised %s: %s" % (op, type(e).__name__, str(e)[:160]), step=step)
                break
            for c in cs:
                model.append(c)
        elif op in ("incompat-fn", "incompat-reopen", "incompat-handle"):
            dt2, kind = incompatible(rng, model.chunks[0].dtype if not text else dtype, text)
            bad = new_chunk(rng, dt2, text, nrows=int(rng.integers(1, 5)))
            if op == "incompat-fn":
                okk = reject(op, lambda: sfile.write(lpath, bad.copy(), append=True), kind, False)
            elif op == "incompat-reopen":
                def f():
                    with sfile.SFile(lpath, "r+") as sf:
                        sf.write(bad.copy())
                okk = reject(op, f, kind, False)
            else:
                okk = reject(op, lambda: handle[0].write(bad.copy()), kind, True)
            if not okk:
                break
        elif op == "remove":
            os.unlink(path)
            model = Model()
            ev(op, None, None)
        elif op == "read-back":
            pass
        if handle[0] is None and model.exists:
            if not judge_state(path, model, form, delim, wit0, step, op, viol):
                break
    if handle[0] is not None:
        try:
            handle[0].close()
        except Exception:
            pass
    if not failed[0]:
        COL.ok("C03.history", (form, delim, tuple(ops)))
    try:
        os.unlink(path)
    except OSError:
        pass


def expected_table(model, text):
    if not text:
        # np.concatenate would normalise the byte order; join the raw rows instead
        return np.frombuffer(b"".join(np.ascontiguousarray(c).tobytes() for c in model.chunks), dtype=model.chunks[0].dtype)
    # text: native order of the file's (first chunk's) field structure
    first = model.chunks[0]
    descr = [(d[0], d[1][1:]) + tuple(d[2:]) for d in first.dtype.descr]
    out = np.zeros(model.total(), dtype=descr)
    i = 0
    for c in model.chunks:
        for nm in out.dtype.names:
            out[nm][i:i + c.size] = c[nm]
        i += c.size
    return out


def judge_state(path, model, form, delim, wit0, step, op, viol):
    from esutil import sfile
    lpath = path            # the state is read back through the real path
    text = delim is not None
    exp = expected_table(model, text)
    total = model.total()
    sig = (form, delim, op, min(len(model.chunks), 4))
    got, e = probe.attempt(sfile.read, path, header=True)
    if e is not None:
        viol("C03.state", "after %s (step %d): sfile.read raised %s: %s" % (op, step, type(e).__name__, str(e)[:160]), step=step)
        return False
    data, hdr = got
    if not isinstance(data, np.ndarray) or data.size != total:
        viol("C03.state", "after %s (step %d): read returned %s rows, the chunks written so far hold %d" % (
            op, step, getattr(data, "size", None), total), step=step, chunks=[int(c.size) for c in model.chunks])
        return False
    if text:
        same = data.dtype.names == exp.dtype.names and all(
            data.dtype.fields[n][0].shape == exp.dtype.fields[n][0].shape and
            rs.text_cells_equal(exp[n], data[n])[0] for n in exp.dtype.names)
    else:
        same = rs.same_dtype(data.dtype, exp.dtype) and data.tobytes() == exp.tobytes()
    if not same:
        row = None
        detail = None
        if text:
            if data.dtype.names != exp.dtype.names:
                detail = "names %r vs %r" % (data.dtype.names, exp.dtype.names)
            else:
                for n in exp.dtype.names:
                    if data.dtype.fields[n][0].shape != exp.dtype.fields[n][0].shape:
                        detail = "field %s shape %r vs %r" % (n, data.dtype.fields[n][0].shape, exp.dtype.fields[n][0].shape)
                        break
                    okc, idx, whatc = rs.text_cells_equal(exp[n], data[n])
                    if not okc:
                        detail = "field %s cell %s: %s" % (n, idx, whatc)
                        break
        if not text and rs.same_dtype(data.dtype, exp.dtype):
            gb, eb = data.tobytes(), exp.tobytes()
            first = next((i for i in range(min(len(gb), len(eb))) if gb[i] != eb[i]), 0)
            row = first // exp.dtype.itemsize
        viol("C03.state", "after %s (step %d): read differs from the concatenation of the %d written chunks (first differing row %s)" % (
            op, step, len(model.chunks), row), step=step, chunks=[int(c.size) for c in model.chunks], detail=detail)
        return False
    if hdr.get("_SIZE") != total:
        viol("C03.state", "after %s (step %d): _SIZE = %r but %d rows were written" % (op, step, hdr.get("_SIZE"), total), step=step)
        return False
    for k, v in rs.user_items(model.header).items():
        if k not in hdr or hdr[k] != v or type(hdr[k]) is not type(v):
            viol("C03.state", "after %s (step %d): user header key %r: given %r at creation, now %r" % (op, step, k, v, hdr.get(k, "<missing>")), step=step)
            return False
    extra = [k for k in hdr if k not in rs.user_items(model.header) and k.lower() not in rs.RESERVED]
    if extra:
        viol("C03.state", "after %s (step %d): header holds keys %r that were not given at creation" % (op, step, extra[:4]), step=step)
        return False
    hdr2, e = probe.attempt(sfile.read_header, path)
    if e is not None or hdr2.get("_SIZE") != total:
        viol("C03.state", "after %s (step %d): read_header: %r" % (op, step, e or hdr2.get("_SIZE")), step=step)
        return False
    # the file itself
    raw = open(path, "rb").read()
    line0 = raw.split(b"\n", 1)[0]
    if line0 != b"SIZE = %20d" % total:
        viol("C03.state", "after %s (step %d): first line of the file is %r, expected SIZE = %%20d of %d" % (op, step, line0[:40], total), step=step)
        return False
    start = rs.data_start(raw)
    if start is None:
        viol("C03.state", "after %s (step %d): no END line" % (op, step), step=step)
        return False
    if not text and raw[start:] != exp.tobytes():
        viol("C03.state", "after %s (step %d): data section has %d bytes, concatenated chunks %d, or bytes differ" % (
            op, step, len(raw) - start, exp.nbytes), step=step)
        return False
    if text and raw[start:].count(b"\n") != total:
        viol("C03.state", "after %s (step %d): data section has %d lines for %d rows" % (op, step, raw[start:].count(b"\n"), total), step=step)
        return False
    with sfile.SFile(lpath) as sf:
        if sf.nrows != total or len(sf[total - 1:]) != 1:
            viol("C03.state", "after %s (step %d): SFile.nrows %r / last-row slice wrong" % (op, step, sf.nrows), step=step)
            return False
    COL.ok("C03.state", sig)
    return True
