"""C01 Binary record files reproduce the written table bit-for-bit."""
import os

import numpy as np

from vlib import gen, probe
from vlib.probe import COL
from vlib.props import recshared as rs

ID = "C01"
NATIVE = True
SAN_STRIDE = {"quick": 3, "thorough": 4}
RULE = ("seeded tables: packed dtypes of 1-8 fields from i1..u8, f4, f8, bool, c8, c16, S1-S12 x scalar/1-d/2-d/3-d "
        "sub-arrays x byte order (uniform and mixed), field names incl. END/TREND/ENDING/SIZE, rows in "
        "{1,2,3,50,300,5000}, raw random cell bytes (NaN payloads, inf, -0.0, integer extremes, embedded NULs), "
        "headers none/flat/nested with quotes, backslashes, newlines, END/SIZE words, long wrapped strings, bytes, "
        "None/bools; written through sfile.write / SFile.write / io.write / Recfile.write / recfile.write from "
        "contiguous, every-other-row and reversed views and read back through every reader; signature = (write "
        "route, read route, dtype kinds, byte orders, sub-array ndim, row class, header class, layout)")
TRUSTED = ["numpy ndarray.tobytes / dtype equality", "python ast-free dict/list equality for header values"]
ASSUMPTIONS = ["at least one row; packed dtypes; header keys are strings other than the reserved underscore names",
               "header values are finite Python literals (no NaN)"]
THOROUGH_ROUNDS = 6      # the thorough tier runs the generator over this many derived seeds
REQUIRED = {"quick": {"C01.file": 1000, "C01.read": 6000, "C01.header": 2500},
            "thorough": {"C01.file": 10000, "C01.read": 70000, "C01.header": 25000}}
WROUTES = ["sfile.write", "SFile.write", "io.write", "Recfile.write", "recfile.write", "sfile.write+append-new", "io.write+append-new", "SFile.reused"]


BOUNDARIES = [512, 1024, 2048, 4096, 8192, 12288, 16384, 65536]


def cases(seed, tier):
    n = 640 if tier == "quick" else 9600
    rng = np.random.default_rng([seed, 1])
    for i in range(n):
        yield {"family": ["dtype-zoo", "headers", "rows", "layout"][i % 4], "wroute": WROUTES[(i // 4) % len(WROUTES)],
               "sub": int(rng.integers(0, 2**31))}
    # header lengths swept across the block sizes a buffered reader might use
    reps = 1 if tier == "quick" else 6
    for r in range(reps):
        for B in BOUNDARIES:
            for mode in ("pad-string", "wide-table"):
                if mode == "wide-table" and B > 16384:
                    continue
                yield {"family": "header-size", "boundary": B, "mode": mode, "wroute": "sfile.write", "sub": int(rng.integers(0, 2**31))}


def install():
    rs.instrument_all()


def header_class(h):
    if h is None:
        return "none"
    if not h:
        return "empty"
    txt = repr(h)
    return ("END" in txt, "\\n" in txt, any(isinstance(v, (list, tuple, dict)) for v in h.values()), len(txt) > 80)


def _key_for(layout, raw, start):
    if layout != "contiguous":
        return "write/non-contiguous-array-written-from-base-pointer"
    if raw is not None:
        head = raw[: start - 5] if start else raw[:4000]
        if b"END" in head:
            return "header/END-text-inside-header-ends-header-search"
    return None


def run_header_size(case):
    """the ascii header is made to end just before, on and just after a block boundary: 24 consecutive lengths"""
    from esutil import sfile
    import esutil.io as eio
    rng = np.random.default_rng(case["sub"])
    B, mode = case["boundary"], case["mode"]
    d = os.environ.get("VERIF_CASEDIR", ".")
    path = os.path.join(d, "c01_%d.rec" % case["_i"])

    def build(k):
        """k = size parameter -> (table, header)"""
        if mode == "pad-string":
            t = np.zeros(3, dtype=[("END", "<i4"), ("x", ">f8"), ("TREND", "S5")])
            t["END"] = [1, -2, 3]
            t["x"] = [0.5, np.nan, -np.inf]
            t["TREND"] = [b"END", b"", b"a\nb"]
            return t, {"pad": "p" * k, "END": "SIZE = 3", "n": k}
        nf = k // 8 + 1
        names = ["f%03dEND" % i for i in range(nf - 1)] + ["z" + "q" * (k % 8)]
        t = np.zeros(2, dtype=[(nm, "<i2") for nm in names])
        t[names[0]] = [7, -7]
        t[names[-1]] = [1, 2]
        return t, None

    def endpos(k):
        t, h = build(k)
        sfile.write(path, t, header=h)
        raw = open(path, "rb").read()
        st = rs.data_start(raw)
        return (st - 6) if st else None        # offset of the newline that begins the END line

    # find a size whose END line lands a little before the boundary, then walk across it
    k = max(1, (B - 200) // (1 if mode == "pad-string" else 3))
    for _ in range(40):
        p0 = endpos(k)
        if p0 is None:
            break
        if B - 40 <= p0 <= B - 14:
            break
        k = max(1, k + int((B - 26 - p0) / (1.05 if mode == "pad-string" else 2.6)))
    seen = []
    for kk in range(k, k + (48 if mode == "pad-string" else 110)):
        t, h = build(kk)
        wit = {"mode": mode, "boundary": B, "size_parameter": kk}
        try:
            sfile.write(path, t, header=h)
        except Exception as e:
            COL.violation("C01.file", "sfile.write raised %s: %s" % (type(e).__name__, str(e)[:160]), wit)
            continue
        raw = open(path, "rb").read()
        st = rs.data_start(raw)
        if st is None or raw[st:] != t.tobytes():
            COL.violation("C01.file", "bytes after the END line differ from the array buffer", wit)
            continue
        pos = st - 6
        if abs(pos - B) > 24:
            if pos > B + 24:
                break
            continue
        seen.append(pos - B)
        wit["end_line_offset"] = pos
        COL.ok("C01.file", ("header-size", mode, B, pos - B))
        for name, fn in (("sfile.read", lambda: sfile.read(path, header=True)), ("io.read", lambda: eio.read(path, header=True)),
                         ("SFile[:]", lambda: (_with(sfile.SFile(path), lambda sf: sf[:]), sfile.read_header(path)))):
            res, e = probe.attempt(fn)
            if e is not None:
                COL.violation("C01.read", "%s raised %s: %s (END line at byte %d, block boundary %d)" % (name, type(e).__name__, str(e)[:120], pos, B), wit)
                continue
            arr, hdr = res
            if not isinstance(arr, np.ndarray) or not rs.same_dtype(arr.dtype, t.dtype) or arr.tobytes() != t.tobytes():
                COL.violation("C01.read", "%s: table read back differs (END line at byte %d, block boundary %d)" % (name, pos, B), wit)
            else:
                COL.ok("C01.read", ("header-size", name, mode, B, pos - B))
            _judge_header(name, hdr, h, t, wit, ("header-size", mode, B))
    I = COL.info.setdefault("end_line_offsets_relative_to_block_boundary", [])
    for o in seen:
        if o not in I and len(I) < 200:
            I.append(o)
    try:
        os.unlink(path)
    except OSError:
        pass


def run_case(case):
    import esutil
    from esutil import sfile, recfile
    import esutil.io as eio
    if case["family"] == "header-size":
        return run_header_size(case)
    rng = np.random.default_rng(case["sub"])
    fam, wroute = case["family"], case["wroute"]
    nrows = None
    if fam == "rows":
        nrows = int(rng.choice([1, 2, 3, 50, 300, 5000], p=[.2, .15, .15, .2, .2, .1]))
    table = rs.bin_table(rng, nrows=nrows)
    if fam == "rows" and rng.random() < .12:
        # more than a megabyte of rows (1.1 - 3 MiB; the row size is whatever the random dtype gives, rarely a power of
        # two), or three rows of more than a megabyte each: whatever block size a writer or reader works in is crossed
        if rng.random() < .8:
            big = np.zeros(int(np.ceil(rng.uniform(1.1, 3.0) * 2 ** 20 / table.dtype.itemsize)), dtype=table.dtype)
        else:
            big = np.zeros(3, dtype=[("id", "<i4"), ("img", str(rng.choice(["<f4", ">f4"])), (int(rng.integers(500, 700)), int(rng.integers(450, 600))))])
        gen.fill(rng, big, raw=True)
        table = big
    header = rs.rand_header(rng) if fam != "dtype-zoo" or rng.random() < .5 else None
    if fam == "headers" and header is None:
        header = {"note": rs.HDR_STRINGS[int(rng.integers(0, len(rs.HDR_STRINGS)))], "END": "END", "k": [1, "END", {"SIZE": 3}]}
    layout = "contiguous"
    data = table
    if fam == "layout":
        layout = ["every-other", "reversed", "contiguous"][int(rng.integers(0, 3))]
        if layout == "every-other":
            big = np.zeros(table.size * 2, dtype=table.dtype)
            big[::2] = table
            big[1::2] = table[::-1]
            data = big[::2]
        elif layout == "reversed":
            data = table[::-1].copy()[::-1] if False else np.ascontiguousarray(table[::-1])[::-1]
    expected_raw = np.ascontiguousarray(table).tobytes()
    d = os.environ.get("VERIF_CASEDIR", ".")
    path = os.path.join(d, "c01_%d.rec" % case["_i"])
    raw_route = wroute in ("Recfile.write", "recfile.write")
    if os.path.exists(path):
        os.unlink(path)
    COL.sample({"family": fam, "wroute": wroute, "descr": repr(table.dtype.descr)[:160], "nrows": int(table.size),
                "header": repr(header)[:120], "layout": layout}, limit=8)
    wit = {"descr": repr(table.dtype.descr)[:400], "nrows": int(table.size), "header": repr(header)[:400], "layout": layout,
           "wroute": wroute}
    sigbase = (wroute, tuple(sorted(set(table.dtype.fields[n][0].base.kind for n in table.dtype.names))),
               tuple(sorted(set(table.dtype.fields[n][0].base.byteorder for n in table.dtype.names))),
               max(len(table.dtype.fields[n][0].shape) for n in table.dtype.names), min(int(np.log10(table.size)), 3), layout)
    # ---- write
    try:
        if wroute == "sfile.write":
            sfile.write(path, data, header=header)
        elif wroute == "SFile.write":
            with sfile.SFile(path, "w") as sf:
                sf.write(data, header=header)
        elif wroute == "io.write":
            eio.write(path, data, header=header)
        elif wroute == "SFile.reused":
            # one SFile object used for one file and then, through its public open(), for this one: nothing of the first
            # file (header, dtype, row count) may carry over.  The first file has the same dtype or another one, and was
            # written or read through the object.
            other = path + ".other"
            first = data[: max(1, data.size // 2)].copy() if rng.random() < .5 else rs.bin_table(rng, nrows=2)
            sfile.write(other, first, header={"first_file": "yes", "n": 7})
            how = int(rng.integers(0, 3))
            if how == 0:
                sf = sfile.SFile(other, "r+")
                sf.write(first)
            elif how == 1:
                sf = sfile.SFile(other)
                sf.read()
            else:
                # the object's previous open() failed after the header had been read: a file that says it holds 0 rows
                raw0 = open(other, "rb").read()
                i0 = raw0.find(b"\n")
                open(other, "wb").write(b"SIZE = %20d" % 0 + raw0[i0:])
                sf = sfile.SFile()
                try:
                    sf.open(other)
                    sf.close()
                except Exception:
                    pass
            if rng.random() < .5:
                sf.close()
            sf.open(path, "w")
            sf.write(data, header=header)
            sf.close()
            os.unlink(other)
        elif wroute == "sfile.write+append-new":
            # append=True on a path that does not exist yet is documented to be an ordinary write
            sfile.write(path, data, header=header, append=True)
        elif wroute == "io.write+append-new":
            eio.write(path, data, header=header, append=True)
        elif wroute == "Recfile.write":
            with recfile.Recfile(path, "w") as rf:
                rf.write(data)
        else:
            recfile.write(path, data)
        if wroute in ("sfile.write", "SFile.write", "io.write", "SFile.reused") and rng.random() < .3:
            # an append the file must refuse (other fields): the refusal must leave the file as it is - the readers below
            # then see the rows and the row count of what was written
            try:
                sfile.write(path, rs.bin_table(rng, nrows=3, nfields=int(len(data.dtype.names) + 1)), append=True)
                refused = False
            except Exception:
                refused = True
            COL.info["refused_appends"] = COL.info.get("refused_appends", 0) + int(refused)
    except Exception as e:
        COL.violation("C01.file", "%s raised %s: %s" % (wroute, type(e).__name__, str(e)[:200]), wit, key=_key_for(layout, None, None))
        return
    # ---- file-level oracle
    raw = open(path, "rb").read()
    start = 0 if raw_route else rs.data_start(raw)
    if start is None:
        COL.violation("C01.file", "no END line followed by a blank line in the written file", wit)
        return
    if raw[start:] == expected_raw:
        COL.ok("C01.file", sigbase + (header_class(header),))
    else:
        got = raw[start:]
        COL.violation("C01.file", "bytes after the END line differ from the array buffer (%d vs %d bytes, first difference at %s)" % (
            len(got), len(expected_raw), next((i for i in range(min(len(got), len(expected_raw))) if got[i] != expected_raw[i]), "end")),
            wit, key=_key_for(layout, None, None))
        if layout != "contiguous":
            return
    # ---- readers
    n = table.size
    readers = []
    if not raw_route:
        readers += [("sfile.read", lambda: sfile.read(path)),
                    ("sfile.read+header", lambda: sfile.read(path, header=True)),
                    ("io.read", lambda: eio.read(path)),
                    ("io.read+header", lambda: eio.read(path, header=True)),
                    ("SFile.read", lambda: _with(sfile.SFile(path), lambda sf: sf.read())),
                    ("SFile[:]", lambda: _with(sfile.SFile(path), lambda sf: sf[:])),
                    ("SFile.read+header", lambda: _with(sfile.SFile(path), lambda sf: sf.read(header=True)))]
    readers += [("Recfile.read", lambda: _with(recfile.Recfile(path, dtype=table.dtype, offset=start, nrows=n), lambda rf: rf.read())),
                ("Recfile[:]", lambda: _with(recfile.Recfile(path, dtype=table.dtype, offset=start, nrows=n), lambda rf: rf[:])),
                ("Recfile.read-countrows", lambda: _with(recfile.Recfile(path, dtype=table.dtype, offset=start), lambda rf: rf.read())),
                ("recfile.read", lambda: recfile.read(path, table.dtype, offset=start, nrows=n))]
    if rng.random() < .5:
        readers.append(("io.read-dtype", lambda: eio.read(path, type="rec", dtype=table.dtype, offset=start, nrows=n)))
    for name, fn in readers:
        res, e = probe.attempt(fn)
        if e is not None:
            COL.violation("C01.read", "%s raised %s: %s" % (name, type(e).__name__, str(e)[:160]), wit, key=_key_for(layout, raw, start))
            continue
        hdr = None
        if name.endswith("+header"):
            res, hdr = res
        if not isinstance(res, np.ndarray) or res.dtype.names is None:
            COL.violation("C01.read", "%s did not return a structured array" % name, wit)
        elif not rs.same_dtype(res.dtype, table.dtype):
            COL.violation("C01.read", "%s: dtype %r differs from the written %r" % (name, res.dtype.descr, table.dtype.descr), wit)
        elif res.tobytes() != expected_raw:
            rowsz = table.dtype.itemsize
            gb = res.tobytes()
            first = next((i for i in range(min(len(gb), len(expected_raw))) if gb[i] != expected_raw[i]), min(len(gb), len(expected_raw)))
            COL.violation("C01.read", "%s: %d rows read, bytes differ from the written rows first in row %d" % (name, res.size, first // rowsz), wit,
                          key=_key_for(layout, raw, start))
        else:
            COL.ok("C01.read", sigbase + (name,))
        if hdr is not None:
            _judge_header(name, hdr, header, table, wit, sigbase)
    if not raw_route:
        hdr, e = probe.attempt(sfile.read_header, path)
        if e is not None:
            COL.violation("C01.header", "sfile.read_header raised %s: %s" % (type(e).__name__, str(e)[:160]), wit, key=_key_for(layout, raw, start))
        else:
            _judge_header("sfile.read_header", hdr, header, table, wit, sigbase)
    try:
        os.unlink(path)
    except OSError:
        pass


def _with(obj, fn):
    with obj as o:
        return fn(o)


def _judge_header(name, hdr, header, table, wit, sigbase):
    bad = None
    if not isinstance(hdr, dict):
        bad = "header is not a dict"
    else:
        for k, v in rs.user_items(header).items():
            if k not in hdr:
                bad = "user key %r missing from the header read back" % k
                break
            if hdr[k] != v or type(hdr[k]) is not type(v):
                bad = "user key %r: wrote %r, read %r" % (k, v, hdr[k])
                break
        if not bad:
            size = hdr.get("_SIZE")
            if size != table.size:
                bad = "_SIZE = %r, rows written %d" % (size, table.size)
            else:
                try:
                    dt = np.dtype(hdr["_DTYPE"])
                    if not rs.same_dtype(dt, table.dtype):
                        bad = "_DTYPE %r does not reconstruct the dtype %r" % (hdr["_DTYPE"], table.dtype.descr)
                except Exception as e:
                    bad = "_DTYPE unusable: %r" % e
    if bad:
        COL.violation("C01.header", "%s: %s" % (name, bad), wit)
    else:
        COL.ok("C01.header", (name, header_class(header), len(table.dtype.names)))
