"""C19 Random sky positions stay in their region; samplers invert the distribution."""
import numpy as np

from vlib import gen as G, probe
from vlib.probe import COL
from vlib.refs import sphere as sp

ID = "C19"
NATIVE = False
RULE = ("seeded calls: randcap over centres on the whole sphere incl. exact poles, |dec| around the 89.9 switch and "
        "the seam, radii 1e-6..180 deg, dorot forced or not, get_radius on/off, RandomState and default_rng; "
        "randsphere boxes incl. zero width, polar strips and the full sphere, both output systems; Generator fed "
        "known deviates through a stub (tabulated / functional densities, even and uneven grids, cumulative on/off, "
        "u at tabulated cumulative values, midpoints, 0, 1, random); Cholesky samplers with a recording deviate "
        "source; random_indices grids; signature = (function, option settings, centre/box class, radius decade, "
        "generator kind, grid class)")
TRUSTED = ["numpy long double trigonometry", "numpy.linalg.cholesky and numpy.linalg.solve (shared with the code under test)"]
ASSUMPTIONS = ["Generator: deviates below the first tabulated cumulative value are not constrained",
               "Cholesky: the arrangement of the drawn deviates into samples is not constrained, only that every sample is mean + L z with the z's being exactly the deviates handed out",
               "random_indices: unique=True is driven with nrand <= imax"]
THOROUGH_ROUNDS = 12      # the thorough tier runs the generator over this many derived seeds
REQUIRED = {"quick": {"C19.randcap": 600, "C19.randsphere": 400, "C19.generator": 400, "C19.cholesky": 300,
                      "C19.random_indices": 300, "C19.repro": 300},
            "thorough": {"C19.randcap": 12000, "C19.randsphere": 8000, "C19.generator": 6000, "C19.cholesky": 6000,
                         "C19.random_indices": 6000, "C19.repro": 6000}}
LD = sp.LD
FAMS = ["randcap", "randcap-pole", "randsphere", "generator", "cholesky", "random_indices"]


def cases(seed, tier):
    n = 3600 if tier == "quick" else 54000
    rng = np.random.default_rng([seed, 19])
    for i in range(n):
        yield {"family": FAMS[i % 6], "sub": int(rng.integers(0, 2**31))}
    for i in range(2 if tier == "quick" else 8):
        yield {"family": "random_indices", "huge": True, "sub": int(rng.integers(0, 2**31))}


def _o_randcap(call):
    if call.depth > 0:
        return
    nrand, ra, dec, rad = (call.arg(i, n) for i, n in enumerate(("nrand", "ra", "dec", "rad")))
    getr, dorot = bool(call.arg(4, "get_radius", False)), bool(call.arg(5, "dorot", False))
    wit = {"nrand": nrand, "ra": ra, "dec": dec, "rad": rad, "get_radius": getr, "dorot": dorot}
    if call.exc is not None:
        COL.violation("C19.randcap", "randcap raised %r" % call.exc, wit)
        return
    res = call.result
    pra, pdec = np.asarray(res[0], dtype="f8"), np.asarray(res[1], dtype="f8")
    rotated = dorot or abs(dec) >= 89.9
    bad = key = None
    if pra.shape != (nrand,) or pdec.shape != (nrand,) or (getr and np.shape(res[2]) != (nrand,)):
        bad = "wrong number of points: %r for nrand=%d" % (pra.shape, nrand)
    elif not (np.all(np.isfinite(pra)) and np.all(np.isfinite(pdec)) and np.all((pra >= 0) & (pra <= 360)) and np.all(np.abs(pdec) <= 90)):
        bad = "non-finite or out-of-range position"
    else:
        s = sp.sep(np.full(nrand, float(ra)), np.full(nrand, float(dec)), pra, pdec)
        if np.any(s > LD(rad) + 1e-9):
            i = int(np.argmax(s))
            bad = "point (%r,%r) lies %.12g deg from the centre, radius %r" % (float(pra[i]), float(pdec[i]), float(s[i]), rad)
        elif getr:
            rr = np.asarray(res[2], dtype="f8")
            d = np.abs(rr - s)
            if np.any(d > 1e-9):
                i = int(np.argmax(d))
                bad = "returned radius %r deg, actual separation %.12g deg" % (float(rr[i]), float(s[i]))
                if rotated and abs(float(rr[i]) - float(s[i]) * 180 / np.pi) <= 1e-6 * max(1.0, float(rr[i])):
                    key = "randcap/rotated-path-radius-converted-twice"
        if not bad:
            COL.info["max_randcap_sep_excess_deg"] = max(COL.info.get("max_randcap_sep_excess_deg", -1.0), float((s - LD(rad)).max()))
    if bad:
        COL.violation("C19.randcap", "randcap: " + bad, wit, key=key)
    else:
        pole = abs(dec) == 90 and "exact-pole" or (abs(dec) >= 89.9 and "switch-above" or (abs(dec) > 89 and "switch-below" or "mid"))
        COL.ok("C19.randcap", ("randcap", getr, dorot, pole, int(np.floor(np.log10(rad))), ra in (0.0, 360.0)))


def _o_randsphere(call):
    if call.depth > 0:
        return
    num = call.arg(0, "num")
    rr_, dr_ = call.arg(1, "ra_range"), call.arg(2, "dec_range")
    system = call.arg(3, "system", "eq")
    wit = {"num": num, "ra_range": rr_, "dec_range": dr_, "system": system}
    if call.exc is not None:
        COL.violation("C19.randsphere", "randsphere raised %r" % call.exc, wit)
        return
    rr = [0.0, 360.0] if rr_ is None else rr_
    dr = [-90.0, 90.0] if dr_ is None else dr_
    res = call.result
    if system == "xyz":
        v = np.array([np.asarray(c, dtype=LD) for c in res])
        if v.shape != (3, num) or not np.all(np.abs(np.sqrt((v * v).sum(axis=0)) - 1) <= 1e-14):
            COL.violation("C19.randsphere", "system='xyz': wrong count or not unit vectors", wit)
            return
        lon, lat = sp.lonlat(v)
        ra, dec = np.asarray(lon, dtype="f8"), np.asarray(lat, dtype="f8")
        slack = 1e-9
        # longitude 360 == 0
        if rr[1] >= 360.0:
            ra = np.where(ra < rr[0] - slack, ra + 360.0, ra)
    else:
        ra, dec = np.asarray(res[0], dtype="f8"), np.asarray(res[1], dtype="f8")
        slack = 1e-9
    if ra.shape != (num,) or dec.shape != (num,):
        COL.violation("C19.randsphere", "wrong number of points %r for num=%d" % (ra.shape, num), wit)
        return
    inside = (ra >= rr[0] - slack) & (ra <= rr[1] + slack) & (dec >= dr[0] - slack) & (dec <= dr[1] + slack) & \
        (ra >= 0) & (ra <= 360) & (np.abs(dec) <= 90)
    if np.all(inside):
        COL.ok("C19.randsphere", ("randsphere", system, rr_ is None, dr_ is None, rr[0] == rr[1], dr[0] == dr[1],
                                  abs(dr[0]) == 90 or abs(dr[1]) == 90))
    else:
        i = int(np.nonzero(~inside)[0][0])
        COL.violation("C19.randsphere", "point (%r,%r) outside box ra %r dec %r" % (float(ra[i]), float(dec[i]), rr, dr), wit)


def install():
    probe.instrument("esutil.coords:randcap", [_o_randcap])
    probe.instrument("esutil.coords:randsphere", [_o_randsphere])
    probe.instrument("esutil.random:Generator.sample", [])
    probe.instrument("esutil.random:CholeskySampler.sample", [])
    probe.instrument("esutil.random:cholesky_sample", [])
    probe.instrument("esutil.random:random_indices", [])


class Stub:
    """stands in for a numpy generator: hands out the deviates it was given"""

    def __init__(self, u):
        self.u = np.asarray(u, dtype="f8")
        self.calls = 0

    def uniform(self, low=0.0, high=1.0, size=None):
        self.calls += 1
        n = 1 if size is None else int(np.prod(size))
        assert n == self.u.size, (n, self.u.size)
        return self.u.copy()

    def random(self, size=None):
        return self.uniform(size=size)


class EdgeRng:
    """duck-typed generator handing out boundary deviates: the largest double below 1 (points on the rim of the cap or
    box), 0, and a few interior values; position angles on and between the cardinal directions"""

    def __init__(self, rng):
        self.rng = rng

    def _u(self, n):
        base = np.array([1.0 - 2.0 ** -53, 1.0 - 2.0 ** -53, 0.0, 0.25, 1.0 - 2.0 ** -30, 2.0 ** -60])
        u = base[np.arange(n) % base.size].copy()
        extra = self.rng.random(n)
        return np.where(np.arange(n) >= 2 * base.size, extra, u)

    def random(self, size=None):
        return self._u(int(size))

    def uniform(self, low=0.0, high=1.0, size=None):
        n = int(size)
        frac = np.array([0.0, 0.25, 0.5, 0.75, 1.0 - 2.0 ** -53, 0.125])
        f = frac[(np.arange(n) // 2) % frac.size].copy()
        f = np.where(np.arange(n) >= 12, self.rng.random(n), f)
        return low + (high - low) * f


class Recorder:
    def __init__(self, rng):
        self.rng, self.out = rng, []

    def __call__(self, n):
        r = self.rng.standard_normal(n)
        self.out.append(r.copy())
        return r


def _mk_rng(kind, seed):
    return np.random.RandomState(seed) if kind == "legacy" else np.random.default_rng(seed)


def dens_gauss(x):
    return np.exp(-0.5 * x * x) + 0.01


def dens_pure_gauss(x):
    return np.exp(-0.5 * x * x)


def dens_exp(x):
    return np.exp(-x)


def dens_ramp(x):
    return 1.5 + 0.4 * np.tanh(x)


def dens_bimodal(x):
    return np.exp(-2 * (x - 1.5) ** 2) + 0.5 * np.exp(-2 * (x + 1.5) ** 2) + 1e-3


def cum_func(x):
    return 1.0 / (1.0 + np.exp(-x))


def run_case(case):
    import esutil.coords as co
    import esutil.random as er
    rng = np.random.default_rng(case["sub"])
    fam = case["family"]
    kind = "legacy" if rng.random() < .5 else "new"
    seed = int(rng.integers(0, 2**31))
    if fam in ("randcap", "randcap-pole"):
        if fam == "randcap":
            ra = float(rng.choice([rng.uniform(0, 360), 0.0, 360.0, 359.9999, 1e-5, 180.0]))
            dec = float(np.degrees(np.arcsin(rng.uniform(-1, 1))))
        else:
            ra = float(rng.uniform(0, 360))
            dec = float(rng.choice([90.0, -90.0, 89.9, -89.9, 89.89999, -89.89999, 89.95, 89.0, -89.5, 89.8999999999,
                                    90 - 10.0 ** rng.uniform(-8, 0)]))
        rad = float(rng.choice([10.0 ** rng.uniform(-6, np.log10(180)), 180.0, 90.0, 1e-6, 1.0, 0.1]))
        nrand = int(rng.choice([1, 2, 10, 200]))
        getr = bool(rng.integers(0, 2))
        dorot = bool(rng.random() < .4)
        COL.sample({"family": fam, "ra": ra, "dec": dec, "rad": rad, "nrand": nrand, "get_radius": getr, "dorot": dorot,
                    "rng": kind}, limit=8)
        # boundary deviates through a duck-typed generator: rim of the cap, centre, cardinal position angles
        probe.attempt(co.randcap, int(rng.choice([6, 12, 30])), ra, dec, rad, get_radius=True, dorot=dorot,
                      rng=EdgeRng(np.random.default_rng(seed)))
        r1, e = probe.attempt(co.randcap, nrand, ra, dec, rad, get_radius=getr, dorot=dorot, rng=_mk_rng(kind, seed))
        if e is None:
            r2, e2 = probe.attempt(co.randcap, nrand, ra, dec, rad, get_radius=getr, dorot=dorot, rng=_mk_rng(kind, seed))
            if e2 is None and all(np.array_equal(a, b) for a, b in zip(r1, r2)):
                COL.ok("C19.repro", ("randcap", kind, dorot or abs(dec) >= 89.9))
            else:
                COL.violation("C19.repro", "randcap: equal seeded generators give different output", {"ra": ra, "dec": dec, "rad": rad})
        return
    if fam == "randsphere":
        mode = int(rng.integers(0, 8))
        rr = dr = None
        if mode in (0, 1, 3):
            a, b = sorted(rng.uniform(0, 360, size=2))
            rr = [float(a), float(b)]
        if mode in (0, 2, 3):
            a, b = sorted(rng.uniform(-90, 90, size=2))
            dr = [float(a), float(b)]
        if mode == 3:     # zero width / touching the limits
            rr = [rr[0], rr[0]] if rng.random() < .5 else [0.0, 360.0]
            dr = [dr[0], dr[0]] if rng.random() < .5 else [float(rng.choice([-90.0, 89.0, 89.999])), 90.0]
        if mode == 4:     # polar strips
            w = 10.0 ** rng.uniform(-6, 0)
            dr = [90.0 - w, 90.0] if rng.random() < .5 else [-90.0, -90.0 + w]
        if mode >= 6:     # zero-width and few-ulp-wide boxes sitting on the limits of the domain themselves
            e360, e0 = float(np.nextafter(360.0, 0.0)), float(np.nextafter(0.0, 1.0))
            rr = [[360.0, 360.0], [0.0, 0.0], [e360, 360.0], [360.0 - 10.0 ** rng.uniform(-13, -9), 360.0], [0.0, e0],
                  [0.0, 10.0 ** rng.uniform(-13, -9)], None][int(rng.integers(0, 7))]
            dr = [[90.0, 90.0], [-90.0, -90.0], [float(np.nextafter(90.0, 0.0)), 90.0], [-90.0, float(np.nextafter(-90.0, 0.0))],
                  [0.0, 0.0], None, None][int(rng.integers(0, 7))]
        num = int(rng.choice([1, 5, 300]))
        system = "eq" if rng.random() < .75 else "xyz"
        probe.attempt(co.randsphere, 12, ra_range=rr, dec_range=dr, system=system, rng=EdgeRng(np.random.default_rng(seed)))
        r1, e = probe.attempt(co.randsphere, num, ra_range=rr, dec_range=dr, system=system, rng=_mk_rng(kind, seed))
        if e is None:
            r2, e2 = probe.attempt(co.randsphere, num, ra_range=rr, dec_range=dr, system=system, rng=_mk_rng(kind, seed))
            if e2 is None and all(np.array_equal(a, b) for a, b in zip(r1, r2)):
                COL.ok("C19.repro", ("randsphere", kind, system))
            else:
                COL.violation("C19.repro", "randsphere: equal seeded generators give different output", {"ra_range": rr, "dec_range": dr})
        return
    if fam == "generator":
        nx = int(rng.choice([2, 3, 5, 20, 100]))
        if rng.random() < .5:
            x = np.linspace(-3, 3, nx) + rng.normal()
        else:
            x = np.cumsum(rng.uniform(0.05, 1.0, size=nx)) - 3
        cumulative = bool(rng.random() < .3)
        usefunc = bool(rng.random() < .4)
        if cumulative:
            f = cum_func
            p = f(x)
        else:
            f = [dens_gauss, dens_ramp, dens_bimodal][int(rng.integers(0, 3))]
            p = f(x) if (usefunc or rng.random() < .5) else rng.uniform(0.05, 2.0, size=nx)
        if not cumulative and rng.random() < .12:
            # a density spanning far more than 16 decades: the normalised cumulative distribution saturates in double
            # precision (several trailing values are exactly 1.0), and u = 1 is among the deviates asked for
            f = [dens_pure_gauss, dens_exp][int(rng.integers(0, 2))]
            nx = int(rng.choice([50, 101, 201]))
            x = np.linspace(-10.0, 10.0, nx) if f is dens_pure_gauss else np.linspace(0.0, 60.0, nx)
            p = f(x)
        elif not usefunc and not cumulative and rng.random() < .3:
            # an integer-valued grid in an integer (also unsigned) or float32 dtype, tabulated density
            x = np.sort(rng.choice(np.arange(1, 250), size=nx, replace=False)).astype(str(rng.choice(["u1", "u2", "u4", "u8", "i2", "i8", "f4"])))
            p = rng.uniform(0.05, 2.0, size=nx)
        pv = p.astype(LD)
        xv = x.astype(LD)
        if cumulative:
            c = pv / pv[-1]
            xg = xv
        else:
            c = np.cumsum((pv[1:] + pv[:-1]) / 2 * np.diff(xv))
            c = c / c[-1]
            xg = xv[1:]
        if c.size < 2:
            return
        mids = (c[1:] + c[:-1]) / 2
        u = np.concatenate([np.asarray(c, dtype="f8"), np.asarray(mids, dtype="f8"), [0.0, 1.0], rng.uniform(0, 1, size=20)])
        u = np.clip(u, 0, 1)
        order = rng.permutation(u.size)
        u = u[order]
        stub = Stub(u)
        wit = {"x": x[:8], "p": p[:8], "cumulative": cumulative, "func": usefunc, "nx": nx}
        kw = {"cumulative": cumulative, "rng": stub}
        if usefunc or cumulative and rng.random() < .5:
            if rng.random() < .5 and not np.any(np.abs(np.diff(x, 2)) > 1e-9):
                gen, e = probe.attempt(er.Generator, f, xrange=[x[0], x[-1]], nx=nx, **kw)
                x = np.linspace(x[0], x[-1], nx)
            else:
                gen, e = probe.attempt(er.Generator, f, x=G.maybe_view(rng, x), **kw)
        else:
            gen, e = probe.attempt(er.Generator, G.maybe_view(rng, p), x=G.maybe_view(rng, x), **kw)
        if e is not None:
            COL.violation("C19.generator", "Generator construction raised %r" % e, wit)
            return
        s, e = probe.attempt(gen.sample, u.size)
        if e is not None or np.shape(s) != (u.size,):
            COL.violation("C19.generator", "Generator.sample failed: %r" % (e or np.shape(s)), wit)
            return
        # reference inverse-CDF map (own interpolation, long double) for u >= c[0]
        uu = u.astype(LD)
        c64 = np.asarray(c, dtype="f8")
        j = np.clip(np.searchsorted(c, uu, side="right") - 1, 0, c.size - 2)
        exp = xg[j] + (xg[j + 1] - xg[j]) / (c[j + 1] - c[j]) * (uu - c[j])
        constrained = u >= c64[0]
        scale = float(np.abs(xg).max())
        err = np.abs(s.astype(LD) - exp)
        tol = 1e-9 * scale + 1e-9 * np.abs((xg[j + 1] - xg[j]) / (c[j + 1] - c[j]))
        bad = None
        if np.any(constrained & ~np.isfinite(s)):
            i = int(np.nonzero(constrained & ~np.isfinite(s))[0][0])
            bad = "u=%r maps to %r (not a point of the grid's range)" % (float(u[i]), float(s[i]))
        elif np.any(constrained & (err > tol)):
            i = int(np.nonzero(constrained & (err > tol))[0][0])
            bad = "u=%r maps to %r, reference inverse-CDF gives %r" % (float(u[i]), float(s[i]), float(exp[i]))
        else:
            # grid points exactly where u equals their cumulative value (<= 4 ulp)
            for k in range(c.size):
                hit = np.nonzero(u == c64[k])[0]
                # u is the reference's cumulative value rounded to double; the code's own cumulative may differ
                # from it by a few ulp, which the local slope dx/dc amplifies
                sl = max(float(abs((xg[min(k + 1, c.size - 1)] - xg[max(k - 1, 0)]) / (c[min(k + 1, c.size - 1)] - c[max(k - 1, 0)]))),
                         float(abs((xg[k] - xg[max(k - 1, 0)]) / (c[k] - c[max(k - 1, 0)]))) if k > 0 else 0.0,
                         float(abs((xg[min(k + 1, c.size - 1)] - xg[k]) / (c[min(k + 1, c.size - 1)] - c[k]))) if k < c.size - 1 else 0.0)
                if hit.size and abs(float(s[hit[0]]) - float(xg[k])) > 4 * np.spacing(max(abs(float(xg[k])), 1e-300)) + 4e-16 * scale \
                        + 16 * np.finfo(float).eps * float(c[k]) * sl:
                    bad = "u equal to the cumulative value of grid point %d (%r) returns %r" % (k, float(xg[k]), float(s[hit[0]]))
                    break
            srt = np.argsort(u, kind="stable")
            cs = s[srt][u[srt] >= c64[0]]
            if not bad and np.any(np.diff(cs) < -1e-12 * scale):
                bad = "map decreases in u"
            if not bad and (np.any(cs < float(xg[0]) - 1e-12 * scale) or np.any(cs > float(xg[-1]) + 1e-12 * scale)):
                bad = "sample leaves the grid for u at or above the first cumulative value"
        if bad:
            COL.violation("C19.generator", "Generator: " + bad, wit)
        else:
            COL.ok("C19.generator", ("generator", cumulative, usefunc, nx, bool(np.any(np.abs(np.diff(x, 2)) > 1e-9)) if nx > 2 else False))
            COL.skipped("C19.generator", "deviates below the first tabulated cumulative value", int((~constrained).sum()))
        sc, e = probe.attempt(gen.sample)
        return
    if fam == "cholesky":
        d = int(rng.integers(1, 6))
        A = rng.normal(size=(d, d))
        cov = A @ A.T + np.eye(d) * 10.0 ** rng.uniform(-2, 1)
        cov *= 10.0 ** rng.uniform(-2, 2)
        mean = rng.normal(size=d) * 10
        n = int(rng.choice([1, 2, 7, 50]))
        rec = Recorder(_mk_rng("new", seed))
        route = int(rng.integers(0, 3))
        wit = {"d": d, "n": n, "route": route, "cov": cov}
        cov_in, mean_in = cov, mean
        if rng.random() < .3:
            # the same matrix / means as a Fortran-ordered array or as a block of a larger one
            big = np.full((d + 2, d + 3), 7.5)
            big[1:d + 1, 2:d + 2] = cov
            cov_in = [np.asfortranarray(cov), big[1:d + 1, 2:d + 2]][int(rng.integers(0, 2))]
            mean_in = G.as_view(rng, mean)[0]
        if route == 0:
            s, e = probe.attempt(er.cholesky_sample, cov_in, n, means=mean_in, dist=rec)
        elif route == 1:
            s, e = probe.attempt(er.cholesky_sample, cov_in, n, dist=rec)
            mean = np.zeros(d)
        else:
            cs, e = probe.attempt(er.CholeskySampler, mean_in, cov_in, dist=rec)
            if e is None:
                if rng.random() < .3:
                    s, e = probe.attempt(cs.sample)
                    n = 1
                    if e is None:
                        s = np.atleast_2d(s)
                else:
                    s, e = probe.attempt(cs.sample, n)
        if e is not None:
            COL.violation("C19.cholesky", "cholesky sampler raised %r" % e, wit)
            return
        s = np.asarray(s)
        drawn = np.concatenate(rec.out) if rec.out else np.zeros(0)
        if s.shape != (n, d) or drawn.size != n * d:
            COL.violation("C19.cholesky", "sample shape %r for n=%d npar=%d (deviates drawn: %d)" % (s.shape, n, d, drawn.size), wit)
            return
        L = np.linalg.cholesky(cov)
        z = np.linalg.solve(L, (s - mean).T)
        cond = np.linalg.cond(L)
        zs, ds = np.sort(z.ravel()), np.sort(drawn)
        tol = 1e-12 * cond * (1 + np.abs(ds)) + 1e-12 * cond * np.abs(mean).max() / np.sqrt(np.diag(cov).min())
        if np.all(np.abs(zs - ds) <= tol):
            COL.ok("C19.cholesky", ("cholesky", route, d, n))
        else:
            COL.violation("C19.cholesky", "samples are not mean + L z for the deviates handed out (max mismatch %.3g)" % float(np.abs(zs - ds).max()), wit)
        return
    if fam == "random_indices":
        imax = int(rng.choice([1, 2, 5, 50, 1000]))
        unique = bool(rng.integers(0, 2))
        nrand = int(rng.integers(0 if imax > 1 else 1, imax + 1)) if unique else int(rng.choice([1, imax, 3 * imax]))
        kw = {"rng": _mk_rng("new", seed)} if rng.random() < .5 else {"seed": seed}
        if case.get("huge"):
            # ranges beyond 2^31 / 2^32 with millions of distinct indices asked for (a new-style generator: the legacy
            # one permutes the whole range)
            imax = int(rng.choice([2 ** 31 + 1, 2 ** 31 + 12345, 2 ** 32 + 7, 2 ** 33]))
            unique, nrand = True, int(rng.integers(4 * 10 ** 6, 6 * 10 ** 6))
            kw = {"rng": np.random.default_rng(seed)}
        r, e = probe.attempt(er.random_indices, imax, nrand, unique=unique, **kw)
        wit = {"imax": imax, "nrand": nrand, "unique": unique}
        if e is not None:
            COL.violation("C19.random_indices", "random_indices raised %r" % e, wit)
            return
        r = np.atleast_1d(r)
        okk = r.size == nrand and (r.size == 0 or (r.min() >= 0 and r.max() < imax)) and (not unique or np.unique(r).size == r.size)
        if okk:
            COL.ok("C19.random_indices", ("random_indices", unique, imax, nrand == imax, "rng" in kw))
        else:
            COL.violation("C19.random_indices", "random_indices(%d,%d,unique=%r) -> %r" % (imax, nrand, unique, r[:10]), wit)
        if "seed" in kw:
            r2, e = probe.attempt(er.random_indices, imax, nrand, unique=unique, **kw)
            if e is None and np.array_equal(r, np.atleast_1d(r2)):
                COL.ok("C19.repro", ("random_indices", unique))
            else:
                COL.violation("C19.repro", "random_indices: same seed, different output", wit)
