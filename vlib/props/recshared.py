"""Shared pieces of the record-file properties C01-C04 (and C15's file rows):
table/header generators, file-level helpers, the selection model and cell
comparators.  Nothing here calls esutil."""
import os

import numpy as np

from vlib import gen, probe

BIN_KINDS = gen.INTS + gen.FLOATS + ["?", "c8", "c16", "S", "S"]
TXT_KINDS = gen.INTS + gen.FLOATS + ["S", "S"]
FIELD_NAMES = ["x", "y", "id", "flux", "ra", "dec", "mag", "flag", "END", "TREND", "ENDING", "SIZE", "_x", "name",
               "Z", "aB", "vec", "m2", "k_", "END_", "x1", "DTYPE", "DELIM", "e", "SEND", "xEND", "ENDx"]
DELIMS = [",", ":", "\t", " ", ";", "|"]


def instrument_all():
    """wrap every record-file entry point (snapshots + call counting); oracles are added by the properties"""
    for p in ("esutil.sfile:write", "esutil.sfile:read", "esutil.sfile:read_header", "esutil.sfile:SFile.write",
              "esutil.sfile:SFile.read", "esutil.sfile:SFile.__getitem__", "esutil.recfile.Util:Recfile.write",
              "esutil.recfile.Util:Recfile.read", "esutil.recfile.Util:Recfile.__getitem__",
              "esutil.recfile.Util:RecfileColumnSubset.read", "esutil.recfile.Util:RecfileColumnSubset.__getitem__",
              "esutil.recfile.Util:write", "esutil.recfile.Util:read", "esutil.io:write", "esutil.io:read"):
        also = ["esutil.recfile"] if p.startswith("esutil.recfile.Util:") and p.split(":")[1] in ("write", "read") else []
        probe.instrument(p, [], also=also)


def bin_table(rng, nrows=None, mixed_order=None, nfields=None, subarrays=True):
    """packed structured array with raw random cell bytes"""
    if nrows is None:
        nrows = int(rng.choice([1, 2, 3, 50, 300], p=[.2, .2, .2, .3, .1]))
    mixed = rng.random() < .3 if mixed_order is None else mixed_order
    descr = gen.rand_descr(rng, nfields=nfields, kinds=BIN_KINDS, names=FIELD_NAMES, uniform_order=not mixed,
                           subarrays=subarrays)
    a = np.zeros(nrows, dtype=descr)
    gen.fill(rng, a, raw=True)
    if rng.random() < .5:
        gen.special_floats(rng, a, p=0.2)
    return a


def text_table(rng, nrows=None, kinds=None, order=None, nfields=None, exact=False, maxsub=2):
    """table for delimited-text files: integers over their full range, floats over many decades (exact=True: no
    float fields), ASCII strings without newline"""
    if nrows is None:
        nrows = int(rng.choice([1, 2, 3, 10, 40], p=[.2, .2, .2, .2, .2]))
    kinds = kinds or (gen.INTS + ["S", "S"] if exact else TXT_KINDS)
    bo = order or str(rng.choice(["<", ">", "mixed"], p=[.4, .35, .25]))
    # ("mixed": every field draws its own byte order)
    descr = gen.rand_descr(rng, nfields=nfields, kinds=kinds, names=FIELD_NAMES, byteorders=(bo,) if bo != "mixed" else ("<", ">"), maxsub=maxsub)
    a = np.zeros(nrows, dtype=descr)
    fill_text(rng, a)
    return a


STR_ALPHABET = list("abcXYZ019_-+.") + [" ", " "]


def fill_text(rng, a, strings="any", delim_chars=",:;|\t"):
    for n in a.dtype.names:
        base = a.dtype.fields[n][0].base
        v = a[n]
        if base.kind in "iu":
            info = np.iinfo(base)
            mode = rng.integers(0, 3, size=v.shape)
            ext = rng.choice(np.array([info.min, info.max, 0, 1, info.min + 1, info.max - 1], dtype=object), size=v.shape)
            rnd = rng.integers(info.min, info.max, size=v.shape, dtype=base.newbyteorder("="), endpoint=True)
            small = rng.integers(max(info.min, -100), min(info.max, 100), size=v.shape, endpoint=True)
            out = np.where(mode == 0, ext, np.where(mode == 1, rnd.astype(object), small.astype(object)))
            v[...] = np.array(out.tolist(), dtype=base.newbyteorder("=")).reshape(v.shape) if v.shape else base.type(int(out))
        elif base.kind == "f":
            k = rng.integers(0, 10, size=v.shape)
            emax = 300 if base.itemsize == 8 else 37
            mant = rng.uniform(1, 10, size=v.shape) * rng.choice([-1.0, 1.0], size=v.shape)
            dec = rng.integers(-emax, emax, size=v.shape)
            with np.errstate(over="ignore", under="ignore"):
                val = mant * 10.0 ** dec
            sp = rng.choice(np.array([np.nan, np.inf, -np.inf, 0.0, -0.0, 1.0, -1.5, 0.1, 1e-310 if base.itemsize == 8 else 1e-40]),
                            size=v.shape)
            mid = rng.normal(size=v.shape) * 10.0 ** rng.integers(-3, 6, size=v.shape)
            with np.errstate(over="ignore", under="ignore", invalid="ignore"):
                v[...] = np.where(k < 4, val, np.where(k < 6, sp, mid)).astype(base.newbyteorder("="))
        elif base.kind == "S":
            L = base.itemsize
            vals = []
            for _ in range(max(v.size, 1)):
                m = int(rng.integers(0, 7))
                if m == 0:
                    s = ""
                elif m == 1:
                    s = " " * L
                elif m == 2:
                    s = (" " * int(rng.integers(1, L + 1)) + "ab")[:L]                     # leading blanks
                elif m == 3:
                    s = ("a" + "".join(rng.choice(list(delim_chars + " "), size=L)))[:L]      # delimiters inside
                elif m == 4:
                    s = "".join(rng.choice(list("'\"\\#%{}"), size=int(rng.integers(1, L + 1))))
                else:
                    s = "".join(rng.choice(STR_ALPHABET, size=int(rng.integers(0, L + 1))))
                vals.append(s.encode()[:L])
            v[...] = np.array(vals[: max(v.size, 1)], dtype=base).reshape(v.shape) if v.shape else vals[0]
    return a


HDR_STRINGS = ["plain", "it's", 'say "hi"', "back\\slash", "two\nlines", "END", "THE END", "SIZE", "SIZE = 3", "END\n",
               "\nEND\n\n", "tab\there", "", " ", "x" * 150, "café", "{'a': 1}", "[1, 2", "#comment", "%s %d"]
HDR_KEYS = ["a", "date", "Author", "ZZ", "AAA", "key with space", "END", "SIZE", "end", "dtype", "x_1", "_myprivate",
            "UPPER", "k'quote", "Z_last", "0num"]


def rand_value(rng, depth=0):
    t = int(rng.integers(0, 9 if depth < 2 else 6))
    if t == 0:
        return int(rng.choice([0, 1, -1, 2 ** 40, -2 ** 70, 7]))
    if t == 1:
        return float(rng.choice([0.5, -1.25e-30, 3.141592653589793, 1e300, 0.1]))
    if t == 2:
        return HDR_STRINGS[int(rng.integers(0, len(HDR_STRINGS)))]
    if t == 3:
        return [b"bytes", b"\x00\x01", b"END"][int(rng.integers(0, 3))]
    if t == 4:
        return [None, True, False][int(rng.integers(0, 3))]
    if t == 5:
        return HDR_STRINGS[int(rng.integers(0, len(HDR_STRINGS)))] * int(rng.integers(1, 3))
    n = int(rng.integers(0, 4))
    if t == 6:
        return [rand_value(rng, depth + 1) for _ in range(n)]
    if t == 7:
        return tuple(rand_value(rng, depth + 1) for _ in range(n))
    return {HDR_KEYS[int(rng.integers(0, len(HDR_KEYS)))]: rand_value(rng, depth + 1) for _ in range(n)}


RESERVED = {"_size", "_nrows", "_delim", "_shape", "_has_fields", "_dtype", "_version"}


# a header read back from one file and reused to create another carries that file's own bookkeeping keys (stale values);
# the format strips / overwrites exactly these spellings
STALE_RESERVED = {"_DELIM": [",", " ", "\t"], "_delim": [","], "_SIZE": [12345], "_size": [3], "_NROWS": [7], "_nrows": [7],
                  "_SHAPE": [(3,)], "_HAS_FIELDS": [True], "_DTYPE": [[("zz", "<i4"), ("yy", "|S3")]], "_VERSION": ["0.9"]}


LOOKALIKE = ["delim", "Delim", "DELIM", "DTYPE", "Dtype", "dtype", "size", "Size", "SIZE", "nrows", "shape", "version", "VERSION", "has_fields"]


def rand_header(rng):
    m = int(rng.integers(0, 4))
    if m == 0:
        return None
    n = int(rng.integers(0 if m == 1 else 1, 6))
    keys = [HDR_KEYS[i] for i in rng.permutation(len(HDR_KEYS))[:n]]
    h = {k: (rand_value(rng) if m == 3 else rand_value(rng, depth=2)) for k in keys}
    if rng.random() < .25:
        # user keys that look like the bookkeeping keys but are not (no leading underscore): they are ordinary user keys
        for k in [LOOKALIKE[int(i)] for i in rng.permutation(len(LOOKALIKE))[: int(rng.integers(1, 3))]]:
            h[k] = [",", "\t", " ", "[('a', '<i4')]", 7, "1.0"][int(rng.integers(0, 6))]
    if rng.random() < .25:
        sk = list(STALE_RESERVED)
        for i in rng.permutation(len(sk))[: int(rng.integers(1, 4))]:
            vals = STALE_RESERVED[sk[int(i)]]
            h[sk[int(i)]] = vals[int(rng.integers(0, len(vals)))]
    return h


def user_items(header):
    if not header:
        return {}
    return {k: v for k, v in header.items() if not (isinstance(k, str) and k.startswith("_") and k.lower() in RESERVED)}


def data_start(raw):
    """offset of the first data byte: after the first line that is exactly END followed by a blank line"""
    i = raw.find(b"\nEND\n\n")
    return None if i < 0 else i + 6


def dtype_signature(dt):
    return tuple((n, dt.fields[n][0].base.str, dt.fields[n][0].shape) for n in dt.names)


def same_dtype(a, b):
    """names, per-field base type incl. byte order, sub-array shapes (packed layouts)"""
    if a.names != b.names:
        return False
    for n in a.names:
        fa, fb = a.fields[n][0], b.fields[n][0]
        if fa.shape != fb.shape or fa.base.kind != fb.base.kind or fa.base.itemsize != fb.base.itemsize:
            return False
        oa = fa.base.byteorder
        ob = fb.base.byteorder
        na = "|" if fa.base.itemsize == 1 or fa.base.kind == "S" else ("<" if oa in "=<" else ">")
        nb = "|" if fb.base.itemsize == 1 or fb.base.kind == "S" else ("<" if ob in "=<" else ">")
        if na != nb:
            return False
    return a.itemsize == b.itemsize


# ---- selection model (C02) -------------------------------------------------

def select_rows(full, rows):
    """documented meaning of a row selection applied to the fully-read table; returns (expected | None, reject)"""
    n = full.size
    if rows is None:
        return full, False
    if isinstance(rows, slice):
        return full[rows], False
    r = np.atleast_1d(np.asarray(rows)).astype("i8")
    if np.ndim(rows) == 0:
        return full[[int(r[0]) % n]], False           # scalar row in [-n, n)
    if r.size and (r.min() < 0 or r.max() >= n):
        return None, True
    return full[np.unique(r)], False


def select_cols(table, cols):
    """cols: None | str | sequence -> (expected, is_plain)"""
    if cols is None:
        return table, False
    if isinstance(cols, (str, np.str_)):
        return table[str(cols)], True
    want = [str(c) for c in cols]
    keep = [n for n in table.dtype.names if n in want]
    out = np.zeros(table.shape, dtype=[d for d in table.dtype.descr if d[0] in keep])
    for n in keep:
        out[n] = table[n]
    return out, False


def equal_arrays(a, b):
    """same dtype structure and bytes (plain or structured)"""
    if not isinstance(a, np.ndarray) or not isinstance(b, np.ndarray):
        return False
    if a.shape != b.shape:
        return False
    if (a.dtype.names is None) != (b.dtype.names is None):
        return False
    if a.dtype.names is None:
        return a.dtype.kind == b.dtype.kind and a.dtype.itemsize == b.dtype.itemsize and \
            np.ascontiguousarray(a).tobytes() == np.ascontiguousarray(b.astype(a.dtype) if a.dtype != b.dtype else b).tobytes()
    if a.dtype.names != b.dtype.names:
        return False
    for n in a.dtype.names:
        if not equal_arrays(np.ascontiguousarray(a[n]), np.ascontiguousarray(b[n])):
            return False
    return True


# ---- text cell comparison (C04) -----------------------------------------------

def text_cells_equal(written, got):
    """written/got: field arrays of one column (any shape).  Integers and strings exactly; f8 to one unit in the
    16th significant digit, f4 in the 7th; NaN stays NaN, infinities keep their sign.  Returns (ok, index, what)."""
    w = np.ascontiguousarray(written)
    g = np.ascontiguousarray(got)
    if w.shape != g.shape:
        return False, None, "shape %r != %r" % (g.shape, w.shape)
    k = w.dtype.kind
    if k in "iuS":
        wn = w.astype(w.dtype.newbyteorder("="))
        gn = g.astype(g.dtype.newbyteorder("="))
        if k == "S":
            bad = np.nonzero((wn != gn).ravel())[0]
        else:
            bad = np.nonzero((wn.astype(object) != gn.astype(object)).ravel())[0] if w.dtype.itemsize == 8 else np.nonzero((wn != gn).ravel())[0]
        if bad.size:
            i = int(bad[0])
            return False, i, "wrote %r, read %r" % (wn.ravel()[i], gn.ravel()[i])
        return True, None, ""
    LD = np.longdouble
    wv = w.astype("f8").astype(LD).ravel()
    gv = g.astype("f8").astype(LD).ravel()
    digits = 16 if w.dtype.itemsize == 8 else 7
    with np.errstate(all="ignore"):
        nan_ok = np.isnan(wv) == np.isnan(gv)
        inf_ok = np.where(np.isinf(wv) | np.isinf(gv), wv == gv, True)
        fin = np.isfinite(wv) & np.isfinite(gv)
        mag = np.where(wv != 0, np.floor(np.log10(np.abs(np.where(wv == 0, 1, wv)))), 0)
        unit = LD(10) ** (mag - (digits - 1))
        close = np.abs(wv - gv) <= unit * (1 + 1e-9)
        # subnormal / zero: absolute agreement to the smallest normal step of the type
        tiny = np.abs(wv) < (2.3e-308 if w.dtype.itemsize == 8 else 1.2e-38)
        close = np.where(tiny, np.abs(wv - gv) <= np.maximum(unit, LD(5e-324 if w.dtype.itemsize == 8 else 1.5e-45)), close)
    ok = nan_ok & inf_ok & (~fin | close)
    if not ok.all():
        i = int(np.nonzero(~ok)[0][0])
        return False, i, "wrote %r, read %r (allowed: one unit in significant digit %d)" % (float(wv[i]), float(gv[i]), digits)
    return True, None, ""
