"""C08 Angular separations equal the true great-circle angle for every pair."""
import numpy as np

from vlib import gen, probe
from vlib.probe import COL
from vlib.refs import sphere as sp

ID = "C08"
NATIVE = False
RULE = ("seeded pairs from families {uniform, tiny 1e-12..1e-3 deg, near-antipodal 180-1e-9..180 and exactly "
        "antipodal, band 170..180 deg, polar, seam, equal} given as Python floats, 0-d, length-1, length-3, long "
        "arrays and lists, degree/radian unit combinations; every sphdist/gcirc call is judged against "
        "atan2(|a x b|, a.b) in long double; each case also drives the swapped, +360 and scalar-vs-array variants; "
        "signature = (function, family, input form, units, separation decade)")
TRUSTED = ["numpy long double sin/cos/atan2/sqrt"]
ASSUMPTIONS = ["latitudes within [-90,90]; tolerance sphdist 1e-11 deg, gcirc 2e-6 deg (from the statement)"]
THOROUGH_ROUNDS = 8      # the thorough tier runs the generator over this many derived seeds
CASE_TIMEOUT = 600
REQUIRED = {"quick": {"C08.sphdist": 2500, "C08.gcirc": 1200, "C08.relations": 1500},
            "thorough": {"C08.sphdist": 50000, "C08.gcirc": 25000, "C08.relations": 30000}}
FAMS = ["uniform", "tiny", "antipodal", "band", "polar", "seam", "equal"]
FORMS = ["float", "0d", "len1", "len3", "long", "list", "view", "tuple", "dtypes"]
LD = sp.LD
TOL = {"sphdist": 1e-11, "gcirc": 2e-6}


def cases(seed, tier):
    n = 840 if tier == "quick" else 16800
    rng = np.random.default_rng([seed, 8])
    for i in range(n):
        yield {"family": FAMS[i % 7], "form": FORMS[(i // 7) % len(FORMS)], "sub": int(rng.integers(0, 2**31))}
    for i in range(3 if tier == "quick" else 12):
        yield {"family": "big", "form": "big", "sub": int(rng.integers(0, 2**31)), "first": i == 0, "cap": 2 ** 21 + 1 if tier == "quick" else 5 * 10 ** 6 + 3}


def run_big(case):
    """long arrays (a million to a few million pairs): every separation function and unit option must give, element
    for element, what it gives on short windows of the same arrays"""
    import esutil.coords as co
    rng = np.random.default_rng(case["sub"])
    n = gen.big_size(rng, cap=case.get("cap"), first=case.get("first", False))
    ra1, ra2 = rng.uniform(0, 360, size=n), rng.uniform(0, 360, size=n)
    dec1, dec2 = np.degrees(np.arcsin(rng.uniform(-1, 1, size=n))), np.degrees(np.arcsin(rng.uniform(-1, 1, size=n)))
    win = gen.windows(rng, n)
    COL.sample({"family": "big", "n": n, "windows": len(win)}, limit=4)
    units = [["deg", "deg"], ["deg", "rad"], ["rad", "deg"], ["rad", "rad"]][int(rng.integers(0, 4))]
    arrs = [np.radians(a) if units[0] == "rad" else a for a in (ra1, dec1, ra2, dec2)]
    probe.big_vs_windows("C08.relations", "sphdist", co.sphdist, arrs, win, kwargs={"units": units})
    probe.big_vs_windows("C08.relations", "gcirc", co.gcirc, [ra1, dec1, ra2, dec2], win)
    # one point against a long array
    probe.big_vs_windows("C08.relations", "sphdist(point, array)", lambda a, b: co.sphdist(33.0, -12.0, a, b), [ra2, dec2], win)


def offset_point(ra, dec, s_deg, pa_deg):
    """point at separation s (deg) and position angle pa from (ra,dec), long double, returned as float64 degrees"""
    r = LD(s_deg) * sp.D2R
    pa = LD(pa_deg) * sp.D2R
    d1 = np.asarray(dec, dtype=LD) * sp.D2R
    a1 = np.asarray(ra, dtype=LD) * sp.D2R
    sd = np.sin(d1) * np.cos(r) + np.cos(d1) * np.sin(r) * np.cos(pa)
    d2 = np.arctan2(sd, np.sqrt(np.maximum(0, 1 - sd * sd)))
    y = np.sin(pa) * np.sin(r) * np.cos(d1)
    x = np.cos(r) - np.sin(d1) * sd
    a2 = a1 + np.arctan2(y, x)
    ra2 = np.asarray(a2 * sp.R2D, dtype="f8") % 360.0
    dec2 = np.clip(np.asarray(d2 * sp.R2D, dtype="f8"), -90, 90)
    return ra2, dec2


def make(case):
    rng = np.random.default_rng(case["sub"])
    fam, form = case["family"], case["form"]
    n = {"float": 1, "0d": 1, "len1": 1, "len3": 3, "list": int(rng.integers(1, 6)), "tuple": int(rng.integers(2, 40)), "dtypes": int(rng.choice([1, 3, 40])),
         "long": int(rng.choice([10, 100, 1000, 5000])), "view": int(rng.choice([2, 7, 100]))}[form]
    ra1 = rng.uniform(0, 360, size=n)
    dec1 = np.degrees(np.arcsin(rng.uniform(-1, 1, size=n)))
    pa = rng.uniform(0, 360, size=n)
    if fam == "uniform":
        ra2 = rng.uniform(0, 360, size=n)
        dec2 = np.degrees(np.arcsin(rng.uniform(-1, 1, size=n)))
    elif fam == "tiny":
        ra2, dec2 = offset_point(ra1, dec1, 10.0 ** rng.uniform(-12, -3, size=n), pa)
    elif fam == "antipodal":
        exact = rng.random(n) < .3
        s = 180 - 10.0 ** rng.uniform(-9, -1, size=n) * (rng.random(n) < .8)
        ra2, dec2 = offset_point(ra1, dec1, s, pa)
        ra2 = np.where(exact, (ra1 + 180.0) % 360.0, ra2)
        dec2 = np.where(exact, -dec1, dec2)
    elif fam == "band":
        ra2, dec2 = offset_point(ra1, dec1, rng.uniform(170, 180, size=n), pa)
    elif fam == "polar":
        sgn = rng.choice([-1.0, 1.0])
        dec1 = sgn * (90 - 10.0 ** rng.uniform(-9, 0, size=n) * (rng.random(n) < .9))
        dec2 = sgn * (90 - 10.0 ** rng.uniform(-9, 0, size=n) * (rng.random(n) < .9))
        if rng.random() < .3:
            dec2 = -dec2
        ra2 = rng.uniform(0, 360, size=n)
    elif fam == "seam":
        ra1 = rng.choice([0.0, 360.0, 359.999999, 1e-7, 359.5, 0.5], size=n)
        ra2 = rng.choice([0.0, 360.0, 359.999999, 1e-7, 359.5, 0.5], size=n)
        dec2 = np.clip(dec1 + rng.normal(size=n) * 10.0 ** rng.uniform(-8, 0), -90, 90)
    else:
        ra2, dec2 = ra1.copy(), dec1.copy()
    if fam != "equal" and n > 1 and rng.random() < .35:
        # some - not all - of the pairs are the same point twice (a catalogue matched against itself plus neighbours)
        same = rng.random(n) < .5
        same[int(rng.integers(0, n))] = True
        same[int(rng.integers(0, n))] = False
        ra2, dec2 = np.where(same, ra1, ra2), np.where(same, dec1, dec2)
    return ra1, dec1, ra2, dec2


def shape_args(form, arrs):
    if form == "float":
        return [float(a[0]) for a in arrs]
    if form == "0d":
        return [np.array(a[0]) for a in arrs]
    if form == "list":
        return [a.tolist() for a in arrs]
    if form == "tuple":
        return [tuple(a.tolist()) for a in arrs]
    if form == "dtypes":
        # whole-degree coordinates in narrow, unsigned and float32 dtypes (each array its own): exactly representable,
        # so the true separation is that of the same numbers as float64.  Unsigned types hold ra in [0,255] / [0,360]
        # and dec in [0,90]; int8 holds ra in [-128,127].
        vr = np.random.default_rng(int(arrs[0].size) * 7919 + int(abs(arrs[0][0]) * 1000) % 9973)
        out = []
        types = ["u1", "u2", "u4", "u8", "i1", "i2", "i4", "i8", "f4", ">f4", ">i4", ">u2"]
        tl = [str(vr.choice(types)), str(vr.choice(types))]      # one type for both longitudes, one for both latitudes
        for k, a in enumerate(arrs):
            islat = k in (1, 3)
            t = tl[int(islat)]
            w = np.round(a)
            if islat:
                w = np.clip(w, -90, 90)
                if "u" in t:
                    w = np.abs(w)
            else:
                w = w % 360 if t not in ("u1", "i1") else (w % 256 if t == "u1" else (w % 256) - 128)
            out.append(w.astype(t))
        return out
    if form == "view":
        # non-contiguous float64 views: every other element, negative stride, record field, 2-d column, inner slice
        vr = np.random.default_rng(int(arrs[0].size) + int(abs(arrs[0][0]) * 1000) % 9973)
        return [gen.as_view(vr, np.array(a))[0] for a in arrs]
    return [np.array(a) for a in arrs]


def _judge(fn, call, in_unit, out_unit):
    mon = "C08." + fn
    a = [call.arg(i, nm) for i, nm in enumerate(("ra1", "dec1", "ra2", "dec2") if fn == "sphdist" else
                                                ("ra1deg", "dec1deg", "ra2deg", "dec2deg"))]
    fam = (COL.case or {}).get("family", "suite")
    form = (COL.case or {}).get("form", "?")
    wit = {"fn": fn, "units": [in_unit, out_unit], "form": form,
           "args": [np.atleast_1d(np.asarray(x, dtype="f8"))[:3].tolist() for x in a]}
    if call.exc is not None:
        key = None
        if fn == "sphdist":
            if isinstance(call.exc, IndexError):
                key = "sphdist/beyond-174deg-mask-on-component-axis"
            elif all(np.ndim(x) == 0 for x in a) and isinstance(call.exc, (ValueError, TypeError)):
                key = "sphdist/scalar-inputs-raise"
        COL.violation(mon, "%s raised %s: %s" % (fn, type(call.exc).__name__, str(call.exc)[:160]), wit, key=key)
        return
    if in_unit == "deg":
        v1, v2 = sp.unit(a[0], a[1]), sp.unit(a[2], a[3])
    else:
        v1, v2 = sp.unit_rad(a[0], a[1]), sp.unit_rad(a[2], a[3])
    if v1.shape != v2.shape:
        n = max(v1.shape[1], v2.shape[1])
        v1, v2 = np.broadcast_to(v1, (3, n)), np.broadcast_to(v2, (3, n))
    true = sp.sep_vec(v1, v2)
    got = np.atleast_1d(np.asarray(call.result, dtype="f8"))
    if got.shape != true.shape:
        COL.violation(mon, "%s: result shape %r for %d pairs" % (fn, got.shape, true.size), wit)
        return
    gd = got.astype(LD) * (sp.R2D if out_unit == "rad" else 1)
    hi = LD(180) * (1 + 4e-16) if out_unit == "rad" else LD(180)
    err = np.abs(gd - true)
    # identical inputs (the same numbers given for both points): exactly zero, not merely within the tolerance
    f8 = [np.broadcast_to(np.atleast_1d(np.asarray(x, dtype="f8")), true.shape) for x in a]
    same = (f8[0] == f8[2]) & (f8[1] == f8[3])
    if (same & (got != 0)).any():
        i = int(np.nonzero(same & (got != 0))[0][0])
        wit["pair"] = [float(x[i]) for x in f8]
        COL.violation(mon, "%s of identical inputs (pair %d of %d, %s form) is %r, not exactly zero" % (fn, i, true.size, form, float(got[i])), wit)
        return
    if same.any():
        COL.ok("C08.relations", ("zero-in-wrapper", fn, form, bool(same.all())))
    bad = ~np.isfinite(got) | (gd < 0) | (gd > hi) | ~(err <= TOL[fn])
    if bad.any():
        i = int(np.nonzero(bad)[0][0])
        key = None
        if fn == "sphdist" and true.size == 3 and float(true.max()) > 174:
            key = "sphdist/beyond-174deg-mask-on-component-axis"
        wit["pair"] = [float(np.broadcast_to(np.atleast_1d(np.asarray(x, dtype="f8")), true.shape)[i]) for x in a]
        COL.violation(mon, "%s = %r deg, true separation %r deg (error %.3g > %g) [%s]" % (
            fn, float(gd[i]), float(true[i]), float(err[i]), TOL[fn], fam), wit, key=key)
        return
    with np.errstate(divide="ignore"):
        dec = int(np.clip(np.floor(np.log10(np.maximum(float(true.min()), 1e-13))), -13, 2))
    COL.ok(mon, (fn, fam, form, in_unit, out_unit, dec, bool(float(true.max()) > 174.3)), n=1)
    COL.info["max_err_" + fn] = max(COL.info.get("max_err_" + fn, 0.0), float(err.max()))
    COL.info["pairs_" + fn] = COL.info.get("pairs_" + fn, 0) + int(true.size)


def _o_sphdist(call):
    if call.depth > 0:
        return
    units = call.arg(4, "units", ["deg", "deg"])
    _judge("sphdist", call, units[0], units[1])


def _o_gcirc(call):
    if call.depth > 0:
        return
    if call.arg(4, "getangle", False) and call.exc is None:
        class C:   # judge the distance part only
            pass
        c = C()
        c.args, c.kwargs, c.exc, c.result, c.depth, c.arg = call.args, call.kwargs, None, call.result[0], 0, call.arg
        _judge("gcirc", c, "deg", "rad")
        return
    _judge("gcirc", call, "deg", "rad")


def install():
    probe.enable_argflip({"sphdist": None, "gcirc": None}, every=4)
    probe.enable_recall("C08.recall", every=5)
    probe.instrument("esutil.coords:sphdist", [_o_sphdist])
    probe.instrument("esutil.coords:gcirc", [_o_gcirc])


def _rel(name, ok, what, wit):
    if ok:
        COL.ok("C08.relations", (name, (COL.case or {}).get("family"), (COL.case or {}).get("form")))
    else:
        COL.violation("C08.relations", what, wit)


def run_case(case):
    if case["family"] == "big":
        return run_big(case)
    import esutil.coords as co
    rng = np.random.default_rng(case["sub"] + 1)
    ra1, dec1, ra2, dec2 = make(case)
    form = case["form"]
    args = shape_args(form, (ra1, dec1, ra2, dec2))
    if form == "dtypes":
        ra1, dec1, ra2, dec2 = (np.asarray(a, dtype="f8") for a in args)      # the numbers actually handed over
    COL.sample({"family": case["family"], "form": form, "pair": [float(ra1[0]), float(dec1[0]), float(ra2[0]), float(dec2[0])]}, limit=7)
    wit = {"pair0": [float(ra1[0]), float(dec1[0]), float(ra2[0]), float(dec2[0])], "n": int(ra1.size)}
    for fn, f, tol in (("sphdist", co.sphdist, 1e-11), ("gcirc", lambda *a: np.degrees(co.gcirc(*a)), 2e-6)):
        d, e = probe.attempt(f, *args)
        if e is not None:
            continue
        d = np.atleast_1d(d)
        ds, e = probe.attempt(f, args[2], args[3], args[0], args[1])
        if e is None:
            _rel("symmetric", np.all(np.abs(np.atleast_1d(ds) - d) <= 2 * tol), "%s not symmetric: %r vs %r" % (fn, d[:3], np.atleast_1d(ds)[:3]), wit)
        if form not in ("list", "tuple"):
            a360 = [args[0] + 360.0, args[1], args[2], args[3]] if rng.random() < .5 else [args[0], args[1], args[2] + 360.0, args[3]]
            d3, e = probe.attempt(f, *a360)
            if e is None:
                _rel("plus360", np.all(np.abs(np.atleast_1d(d3) - d) <= 2 * tol), "%s changes when 360 is added to a longitude" % fn, wit)
        if case["family"] == "equal":
            _rel("zero", np.all(d == 0.0), "%s of identical inputs is not exactly zero: %r" % (fn, d[:3]), wit)
        if form in ("len3", "long", "len1", "view", "dtypes"):
            i = int(rng.integers(0, ra1.size))
            dsc, e = probe.attempt(f, float(ra1[i]), float(dec1[i]), float(ra2[i]), float(dec2[i]))
            if e is None:
                _rel("scalar-vs-array", abs(float(np.atleast_1d(dsc)[0]) - float(d[i])) <= 1e-13 + (0 if fn == "sphdist" else 2e-6),
                     "%s scalar call %r differs from array element %r" % (fn, dsc, d[i]), wit)
    # one scalar point against an array of points (broadcast), e.g. distances from a centre
    if form in ("len3", "long"):
        i = int(rng.integers(0, ra1.size))
        db, e = probe.attempt(co.sphdist, float(ra1[i]), float(dec1[i]), ra2, dec2)
        if e is None:
            ref = sp.sep(np.full(ra2.size, ra1[i]), np.full(ra2.size, dec1[i]), ra2, dec2)
            _rel("broadcast", np.shape(db) == ra2.shape and np.all(np.abs(np.asarray(db, dtype=LD) - ref) <= 1e-11),
                 "sphdist(scalar point, array of points) differs from the pairwise separations", wit)
        else:
            COL.violation("C08.relations", "sphdist(scalar point, array of points) raised %s: %s" % (type(e).__name__, str(e)[:120]), wit,
                          key="sphdist/broadcast-near-antipodal-raises" if isinstance(e, IndexError) else None)
    # one of the points of a list against the whole list, as a scalar: for both functions, in every container form
    if ra1.size > 1:
        i = int(rng.integers(0, ra1.size))
        for f in (co.sphdist, co.gcirc):
            probe.attempt(f, float(ra2[i]), float(dec2[i]), args[2], args[3])
            probe.attempt(f, args[2], args[3], float(ra2[i]), float(dec2[i]))
    # gcirc with the position angle requested as well: the distance part is the same function (judged by the wrapper)
    with np.errstate(all="ignore"):
        ga, e = probe.attempt(co.gcirc, *args, getangle=True)
    if e is None:
        g0, e0 = probe.attempt(co.gcirc, *args)
        _rel("getangle-same-distance", e0 is None and isinstance(ga, tuple) and len(ga) == 2 and
             np.array_equal(np.atleast_1d(ga[0]), np.atleast_1d(g0)), "gcirc(getangle=True) returns another distance than gcirc()", wit)
    # radian input whose longitudes differ by whole multiples of 360.0 *radians* (360 is no period there)
    if rng.random() < .2:
        r0, d0 = float(rng.uniform(-3, 3)), float(rng.uniform(-1.5, 1.5))
        k360 = 360.0 * float(rng.choice([1, -1, 2]))
        probe.attempt(co.sphdist, r0, d0, r0 + k360, d0, units=["rad", str(rng.choice(["rad", "deg"]))])
        probe.attempt(co.sphdist, np.array([r0, r0 + 1.0]), np.array([d0, d0]), np.array([r0 + k360, r0 + 1.0 + k360]), np.array([d0, d0]), units=["rad", "rad"])
    # unit options of sphdist
    if form not in ("list", "tuple"):
        r = [np.radians(a) for a in args]
        for ui, uo in (("rad", "rad"), ("rad", "deg"), ("deg", "rad")):
            probe.attempt(co.sphdist, *(r if ui == "rad" else args), units=[ui, uo])
