"""C05 Histogram counts and reverse indices partition the binned data."""
import numpy as np

from vlib import gen, probe
from vlib.probe import COL
from vlib.refs import hist as rh

ID = "C05"
NATIVE = True
SAN_STRIDE = {"quick": 4, "thorough": 5}
RULE = ("seeded cases from families {int-ties, floats, dyadic-edges, single, constant, limits, nbin, "
        "nbin-limits}; each case drives stat.histogram(rev=True/False) and Binner.dohist with the C and the "
        "Python engine; a case signature is (family, bin mode, min given, max given, size class, nbin class, "
        "dtype, ties present, data excluded by limits, empty bins present); it is non-trivial when at least "
        "two bins or at least two data are involved or a limit excludes data")
TRUSTED = ["numpy floor/argsort(kind=stable)", "fractions.Fraction"]
ASSUMPTIONS = ["data finite; bin size > 0; limits always include at least one datum",
               "data whose IEEE and exact-rational bin index differ make the call's count comparison skipped"]
THOROUGH_ROUNDS = 3      # the thorough tier runs the generator over this many derived seeds
CASE_TIMEOUT = 600
REQUIRED = {"quick": {"C05.hist": 1500, "C05.engines": 400, "C05.binner": 400},
            "thorough": {"C05.hist": 30000, "C05.engines": 8000, "C05.binner": 8000}}

FAMILIES = ["int-ties", "floats", "dyadic-edges", "single", "constant", "limits", "nbin", "nbin-limits"]


def cases(seed, tier):
    n = 1200 if tier == "quick" else 30000
    rng = np.random.default_rng([seed, 5])
    for i in range(n):
        yield {"family": FAMILIES[i % len(FAMILIES)], "sub": int(rng.integers(0, 2**31))}
    for i in range(1 if tier == "quick" else 6):
        yield {"family": "big", "sub": int(rng.integers(0, 2**31)), "first": i == 0, "cap": 2 ** 22 + 5 if tier == "quick" else 5 * 10 ** 6 + 3}


def make(case):
    rng = np.random.default_rng(case["sub"])
    fam = case["family"]
    n = int(rng.choice([1, 2, 3, 5, 17, 100, 400, 2000], p=[.05, .08, .1, .12, .2, .25, .15, .05]))
    kw = {}
    dt = rng.choice(["f8", "f8", "f4", "i8", "i4", "i2", "u1", "list"])
    if fam == "int-ties":
        span = int(rng.choice([1, 2, 5, 20, 100]))
        base = int(rng.integers(-50, 50)) if dt != "u1" else int(rng.integers(0, 100))
        data = rng.integers(base, base + span + 1, size=n)
        kw["binsize"] = float(rng.choice([1, 2, 3, 0.5, 0.25, 7]))
    elif fam == "floats":
        scale = 10.0 ** rng.integers(-3, 4)
        data = rng.normal(size=n) * scale if rng.random() < .5 else rng.uniform(-scale, scale, size=n)
        kw["binsize"] = float(scale * rng.uniform(0.02, 2.0))
        dt = rng.choice(["f8", "f8", "f4", "list"])
    elif fam == "dyadic-edges":
        j = int(rng.integers(0, 7))
        data = rng.integers(-200, 200, size=n) * 2.0 ** -j
        kw["binsize"] = float(2.0 ** rng.integers(-6, 7))
        while (data.max() - data.min()) / kw["binsize"] > 4000:
            kw["binsize"] *= 2
        dt = rng.choice(["f8", "f4", "list"])
        if rng.random() < .25 and n > 3:
            # non-negative data holding +0.0 and -0.0 in both orders: equal values, i.e. ties in original order
            data = np.abs(data)
            z = rng.integers(0, n, size=max(2, n // 4))
            data[z] = np.where(rng.random(z.size) < .5, 0.0, -0.0)
    elif fam == "single":
        data = np.array([rng.normal() * 10 if rng.random() < .5 else float(rng.integers(-5, 5))])
        kw["binsize"] = float(rng.choice([1, 0.5, 0.1, 3.3]))
        dt = rng.choice(["f8", "i8", "list"])
        if dt == "i8":
            data = np.rint(data)
    elif fam == "constant":
        data = np.full(n, float(rng.integers(-5, 5)) if rng.random() < .5 else rng.normal())
        kw["binsize"] = float(rng.choice([1, 0.5, 0.1, 2.0 ** -4]))
        dt = rng.choice(["f8", "f4", "list"])
    elif fam in ("limits", "nbin-limits"):
        if rng.random() < .5:
            data = rng.integers(-20, 21, size=n).astype("f8")
        else:
            data = np.round(rng.normal(size=n) * 8, int(rng.integers(0, 3)))
        dt = rng.choice(["f8", "f4", "list"])
        if dt == "f4":   # limits are chosen from the values the callee will see
            data = data.astype("f4").astype("f8")
        s = np.sort(data)
        # choose limits that include at least one datum
        pick = float(s[int(rng.integers(0, n))])
        mode = int(rng.integers(0, 6))
        lo = hi = None
        if mode in (0, 2, 4):
            lo = pick - float(rng.choice([0, 0, 0.5, 1, 3, 10]))
        if mode in (1, 2, 5):
            hi = pick + float(rng.choice([0, 0, 0.5, 1, 3, 10]))
        if mode == 3:   # limits exactly at data
            a, b = sorted(rng.integers(0, n, size=2))
            lo, hi = float(s[a]), float(s[b])
        if mode == 4 and rng.random() < .5:
            lo = int(np.floor(lo))
        if lo is not None:
            kw["min"] = lo
        if hi is not None:
            kw["max"] = hi
        if fam == "limits":
            kw["binsize"] = float(rng.choice([1, 2, 0.5, 0.25, 3, 0.3, 1.7]))
        else:
            kw["nbin"] = int(rng.choice([1, 2, 3, 7, 50]))
            lo2 = kw.get("min", data.min())
            hi2 = kw.get("max", data.max())
            if not hi2 > lo2:
                kw.pop("nbin")
                kw["binsize"] = 1.0
    elif fam == "nbin":
        if rng.random() < .5:
            data = rng.integers(-30, 31, size=max(n, 2)).astype("f8")
        else:
            data = rng.normal(size=max(n, 2)) * 10.0 ** rng.integers(-2, 3)
        if data.max() == data.min():
            data[0] += 1
        kw["nbin"] = int(rng.choice([1, 2, 3, 7, 50]))
        dt = rng.choice(["f8", "f4", "i8", "list"])
        if dt == "i8":
            data = np.rint(data)
            if data.max() == data.min():
                data[0] += 1
    if dt == "list":
        data = [float(v) for v in data]
    elif dt == "u1":
        data = np.asarray(data).astype("u1")
    else:
        data = np.asarray(data).astype(dt)
    return data, kw, str(dt)


# ---------------------------------------------------------------------------
# the oracle (also used by C14)

def judge_hist(monitor, x, vmin, vmax, binsize_arg, nbin_arg, hist, rev,
               reported_binsize=None, reported_nbin=None, sig_extra=()):
    """Judge one observed (hist, rev) against the reference.  Returns the
    reference dict (or None when judged violated early)."""
    x = np.atleast_1d(np.asarray(x)).astype(np.float64)
    lo, hi = rh.limits(x, vmin, vmax)
    bs_exp, nb_exp = rh.expected_bins(lo, hi, binsize_arg, nbin_arg)
    wit = {"n": int(x.size), "min": vmin, "max": vmax, "binsize": binsize_arg, "nbin": nbin_arg}
    if reported_nbin is not None and int(reported_nbin) != nb_exp:
        COL.violation(monitor, "reported nbin %r != definition %r" % (reported_nbin, nb_exp), wit, key=None)
        return None
    if reported_binsize is not None and float(reported_binsize) != float(bs_exp):
        COL.violation(monitor, "reported binsize %r != definition %r" % (reported_binsize, bs_exp), wit)
        return None
    hist = np.asarray(hist)
    if hist.shape != (nb_exp,):
        COL.violation(monitor, "hist has shape %r, expected (%d,)" % (hist.shape, nb_exp), wit)
        return None
    ref = rh.reference(x, lo, hi, bs_exp, nb_exp)
    nontrivial = x.size >= 2 or nb_exp >= 2
    ties = bool(np.unique(x).size < x.size)
    sig = sig_extra + ("binsize" if nbin_arg is None else "nbin", vmin is not None, vmax is not None,
                       min(int(np.log2(x.size)) if x.size else 0, 8), min(int(np.log2(nb_exp)), 8), ties,
                       bool((~ref["counted"]).any()), bool((ref["hist"] == 0).any()))
    bad = []
    if ref["ambiguous"]:
        COL.skipped(monitor, "edge-rounding")
    else:
        if not np.array_equal(hist, ref["hist"]):
            d = np.nonzero(hist != ref["hist"])[0]
            bad.append(("counts differ from floor((x-min)/binsize) membership in bins %r: got %r expected %r" % (
                d[:5].tolist(), hist[d[:5]].tolist(), ref["hist"][d[:5]].tolist()), "counts"))
    if hist.sum() != hist.astype(object).sum() or (hist < 0).any():
        bad.append(("negative or overflowing count", "counts"))
    if rev is not None:
        rev = np.asarray(rev)
        nb = nb_exp
        ok_struct = True
        if rev.size < nb + 1:
            bad.append(("reverse index array shorter than nbin+1", "rev-structure"))
            ok_struct = False
        else:
            off = rev[: nb + 1]
            if (off < nb + 1).any() or (off > rev.size).any() or (np.diff(off) < 0).any():
                bad.append(("reverse-index offsets not monotone within [nbin+1, len(rev)]: %r" % off[:10].tolist(),
                            "rev-structure"))
                ok_struct = False
        if ok_struct:
            seen = 0
            for i in range(nb):
                sl = rev[rev[i]: rev[i + 1]]
                if sl.size != hist[i]:
                    bad.append(("bin %d: reverse slice has %d entries but hist=%d" % (i, sl.size, hist[i]),
                                "rev-length"))
                    break
                if not ref["ambiguous"]:
                    if sl.tolist() != ref["members"][i]:
                        cls = "rev-order" if sorted(sl.tolist()) == sorted(ref["members"][i]) else "rev-members"
                        bad.append(("bin %d: reverse slice %r != members in (value, original index) order %r" % (
                            i, sl[:8].tolist(), ref["members"][i][:8]), cls))
                        break
                else:
                    # still: members must be valid, distinct and value-ordered with ties in original order
                    if sl.size and ((sl < 0).any() or (sl >= x.size).any()):
                        bad.append(("bin %d: reverse slice holds invalid index" % i, "rev-members"))
                        break
                    v = x[sl]
                    if (np.diff(v) < 0).any() or ((np.diff(v) == 0) & (np.diff(sl) < 0)).any():
                        bad.append(("bin %d: reverse slice not ordered by value with ties in original order" % i,
                                    "rev-order"))
                        break
                seen += sl.size
            if not bad and seen != hist.sum():
                bad.append(("reverse slices hold %d indices, counts sum to %d" % (seen, hist.sum()), "rev-length"))
    if bad:
        wit["x_head"] = x[:12].tolist()
        wit["hist"] = hist[:20].tolist()
        wit["rev"] = None if rev is None else np.asarray(rev)[:40].tolist()
        wit["expected_hist"] = ref["hist"][:20].tolist()
        key = classify(bad[0][1], x, lo, hi, bs_exp, nb_exp, nbin_arg, ref)
        COL.violation(monitor, bad[0][0], wit, key=key)
    else:
        COL.ok(monitor, sig if nontrivial else None)
    return ref


def classify(cls, x, lo, hi, bs, nb, nbin_arg, ref):
    """Mechanism class of a witness (for the known-findings file)."""
    if cls in ("rev-length", "rev-members") and nbin_arg is not None:
        # D11: data with index == nbin (x == max) are not counted but sit in the last non-empty bin's slice
        inl = (x >= lo) & (x <= hi)
        if ((ref["idx"] >= nb) & inl).any():
            return "nbin/uncounted-max-in-last-reverse-slice"
    return None


def _oracle_histogram(call):
    a = call.args
    if call.depth > 0:
        return
    data = call.arg(0, "data")
    kw = call.kwargs
    if call.arg(None, "nperbin") is not None:
        return  # C14
    binsize = call.arg(None, "binsize", 1.0)
    nbin = call.arg(None, "nbin")
    if nbin is not None:
        binsize = None
    vmin, vmax = kw.get("min"), kw.get("max")
    if call.exc is not None:
        COL.violation("C05.hist", "histogram raised %s: %s" % (type(call.exc).__name__, str(call.exc)[:200]),
                      {"kw": {k: v for k, v in kw.items() if k != "weights"}})
        return
    r = call.result
    fam = (COL.case or {}).get("family", "suite")
    if isinstance(r, dict):
        judge_hist("C05.hist", data, vmin, vmax, binsize, nbin, r["hist"], r.get("rev"),
                   r.get("binsize"), r.get("nbin"), sig_extra=(fam, "more"))
    elif isinstance(r, tuple):
        judge_hist("C05.hist", data, vmin, vmax, binsize, nbin, r[0], r[1], sig_extra=(fam, "rev"))
    else:
        judge_hist("C05.hist", data, vmin, vmax, binsize, nbin, r, None, sig_extra=(fam, "norev"))


def _oracle_dohist(call):
    if call.depth > 0:
        return
    self = call.args[0]
    if call.arg(3, "nperbin") is not None:
        return
    binsize, nbin = call.arg(1, "binsize"), call.arg(2, "nbin")
    if binsize is None and nbin is None:
        return
    if binsize is not None:
        nbin = None   # dohist uses nbin only when no binsize is given
    vmin, vmax = call.arg(4, "min"), call.arg(5, "max")
    if call.exc is not None:
        COL.violation("C05.binner", "Binner.dohist raised %s: %s" % (type(call.exc).__name__, str(call.exc)[:200]), {})
        return
    fam = (COL.case or {}).get("family", "suite")
    judge_hist("C05.binner", self.x, vmin, vmax, binsize, nbin, self["hist"], self.get("rev"),
               self.get("binsize"), self.get("nbin"), sig_extra=(fam, "binner"))


def install():
    probe.enable_argflip({"histogram": lambda a, k: k.get("weights") is None or isinstance(k.get("weights"), np.ndarray)}, every=4)
    probe.enable_recall("C05.recall", every=5)
    probe.instrument("esutil.stat.util:histogram", [_oracle_histogram], also=["esutil.stat"])
    probe.instrument("esutil.stat.util:Binner.dohist", [_oracle_dohist])


def run_big(case):
    """one to a few million dyadic data (eighths), unit or dyadic bin size: counts against numpy's floor/bincount, the
    reverse indices as a partition (vectorised), through histogram and Binner"""
    import esutil.stat as st
    rng = np.random.default_rng(case["sub"])
    n = gen.big_size(rng, cap=case.get("cap"), first=case.get("first", False))
    x = rng.integers(-4000, 4000, size=n) / 8.0
    bs = float(rng.choice([1.0, 0.5, 2.0, 16.0]))
    kw = {"binsize": bs}
    if rng.random() < .5 and not case.get("first"):       # (the run's largest array goes through whole)
        kw["min"] = float(rng.integers(-600, -100))
    if rng.random() < .5 and not case.get("first"):
        kw["max"] = float(rng.integers(100, 600))
    COL.sample({"family": "big", "n": n, "kw": kw}, limit=2)
    lo = kw.get("min", float(x.min()))
    hi = kw.get("max", float(x.max()))
    inr = (x >= lo) & (x <= hi)
    idx = np.floor((x - lo) / bs).astype(np.int64)            # exact: dyadic data, dyadic bin size and limits
    nb = int(np.floor((hi - lo) / bs)) + 1
    keep = inr & (idx >= 0) & (idx < nb)
    exp = np.bincount(idx[keep], minlength=nb)
    wit = {"n": n, "kw": kw}
    res, e = probe.attempt(st.histogram, x, rev=True, **kw)
    if e is not None:
        COL.violation("C05.hist", "histogram of %d data raised %s: %s" % (n, type(e).__name__, str(e)[:120]), wit)
        return
    h, rev = np.asarray(res[0]), np.asarray(res[1])
    bad = None
    if h.shape != exp.shape or not np.array_equal(h, exp):
        j = int(np.nonzero(h[:min(h.size, exp.size)] != exp[:min(h.size, exp.size)])[0][0]) if h.size and exp.size and (h[:min(h.size, exp.size)] != exp[:min(h.size, exp.size)]).any() else -1
        bad = "counts of %d data differ from floor((x-min)/binsize) membership (sizes %d / %d, first differing bin %d)" % (n, h.size, exp.size, j)
    else:
        off = rev[:nb + 1]
        body = rev[nb + 1:]
        if off[0] != nb + 1 or off[-1] != rev.size or np.any(np.diff(off) != h) or body.size != keep.sum():
            bad = "reverse-index offsets do not match the counts"
        elif not np.array_equal(np.sort(body), np.nonzero(keep)[0]):
            bad = "the reverse indices are not a permutation of the counted data"
        elif not np.array_equal(idx[body], np.repeat(np.arange(nb), h)):
            bad = "a reverse-index slice holds data of another bin"
    if bad:
        COL.violation("C05.hist", "big: " + bad, wit)
    else:
        COL.ok("C05.hist", ("big", int(np.log2(n)), bs, "min" in kw, "max" in kw))


def run_case(case):
    if case["family"] == "big":
        return run_big(case)
    import esutil.stat as st
    import esutil.stat.util as su
    data, kw, dt = make(case)
    # one case in four presents float64 data as a non-contiguous view (strided, negative stride, record field, column of
    # a 2-d array): the engines must honour the strides
    lr = np.random.default_rng([case["sub"], 5])
    if isinstance(data, np.ndarray) and data.dtype == np.float64 and data.ndim == 1 and lr.random() < .5:
        k = int(lr.integers(0, 5))
        vals = data.copy()
        if k == 4:
            # the same values in the other byte order (a column read from a FITS or big-endian binary file)
            data = vals.astype(vals.dtype.newbyteorder())
        elif k == 0:
            big = np.full(vals.size * 2, -777.25)
            big[::2] = vals
            data = big[::2]
        elif k == 1:
            data = np.ascontiguousarray(vals[::-1])[::-1]
        elif k == 2:
            rec = np.zeros(vals.size, dtype=[("id", "i4"), ("x", "f8"), ("w", "f4")])
            rec["x"] = vals
            rec["id"] = 12345
            data = rec["x"]
        else:
            m2 = np.full((vals.size, 3), 9.75)
            m2[:, 1] = vals
            data = m2[:, 1]
        dt = dt + "/" + ["strided", "negstride", "recfield", "2dcol", "swapped"][k]
    elif isinstance(data, np.ndarray) and data.ndim == 1 and data.dtype.itemsize > 1 and lr.random() < .3:
        data = data.astype(data.dtype.newbyteorder())
        dt = dt + "/swapped"
    COL.sample({"family": case["family"], "dtype": dt, "kw": kw,
                "data_head": (data[:8] if isinstance(data, list) else data[:8].tolist()), "n": len(data)})
    res = {}
    try:
        for eng in (True, False):
            su.have_chist = eng
            res[eng] = probe.attempt(st.histogram, data, rev=True, **kw)
            rnorev = probe.attempt(st.histogram, data, rev=False, **kw)
            r0 = res[eng][0]
            if r0 is not None and rnorev[0] is not None and not np.array_equal(r0[0], rnorev[0]):
                COL.violation("C05.engines", "rev=True and rev=False give different counts", {"kw": kw})
            b = st.Binner(data)
            probe.attempt(b.dohist, rev=bool(case["sub"] % 2), calc_stats=bool(case["sub"] % 3), **kw)
            # the same Binner is documented to be reusable: a history of further calls with other limits, with and
            # without limits, other bin sizes / counts (each call judged by the wrapper against the object's data)
            hr = np.random.default_rng([case["sub"], 77, int(eng)])
            arr = np.asarray(data, dtype="f8")
            lo, hi = float(arr.min()), float(arr.max())
            for step in range(int(hr.integers(2, 5))):
                k2 = {}
                if hr.random() < .5 and hi > lo:
                    k2["nbin"] = int(hr.integers(1, 9))
                else:
                    k2["binsize"] = float(hr.choice([0.25, 0.5, 1.0, 2.0, 4.0])) * (1.0 if hi - lo < 64 else 2.0 ** int(np.ceil(np.log2((hi - lo) / 64))))
                if hr.random() < .4:
                    k2["min"] = float(hr.choice(arr)) if hr.random() < .5 else lo - float(hr.uniform(0, 1))
                if hr.random() < .4:
                    k2["max"] = float(hr.choice(arr)) if hr.random() < .5 else hi + float(hr.uniform(0, 1))
                if "min" in k2 and "max" in k2 and not (k2["max"] > k2["min"]):
                    k2.pop("max")
                if "nbin" in k2 and not (k2.get("max", hi) > k2.get("min", lo)):
                    k2.pop("nbin")
                    k2["binsize"] = 1.0
                sel = arr[(arr >= k2.get("min", lo)) & (arr <= k2.get("max", hi))]
                if sel.size == 0:
                    continue
                probe.attempt(b.dohist, rev=bool(hr.integers(0, 2)), calc_stats=bool(hr.integers(0, 2)), **k2)
                COL.info["binner_reuse_calls"] = COL.info.get("binner_reuse_calls", 0) + 1
    finally:
        su.have_chist = True
    (rc, ec), (rp, ep) = res[True], res[False]
    if (ec is None) != (ep is None):
        COL.violation("C05.engines", "one engine raised and the other did not: C=%r python=%r" % (ec, ep), {"kw": kw})
    elif ec is None:
        same = (rc[0].dtype == rp[0].dtype and rc[1].dtype == rp[1].dtype
                and rc[0].tobytes() == rp[0].tobytes() and rc[1].tobytes() == rp[1].tobytes())
        if same:
            COL.ok("C05.engines", (case["family"], "nbin" in kw, "min" in kw, "max" in kw, dt))
        else:
            COL.violation("C05.engines", "compiled and pure-Python engines return different arrays",
                          {"kw": kw, "c_hist": rc[0][:20].tolist(), "py_hist": rp[0][:20].tolist(),
                           "c_rev": rc[1][:30].tolist(), "py_rev": rp[1][:30].tolist()})
