"""C04 Delimited-text record files round-trip values and structure."""
import os

import numpy as np

from vlib import gen, probe
from vlib.probe import COL
from vlib.props import recshared as rs

ID = "C04"
NATIVE = True
SAN_STRIDE = {"quick": 3, "thorough": 4}
RULE = ("seeded tables with fields from {i1..u8, f4, f8, S1-S12} x {scalar, 1-d, 2-d} x {<,>}: integer extremes, "
        "floats with 17-digit mantissas over the whole normal range plus subnormals/NaN/+-inf/+-0, ASCII strings "
        "(empty, all blanks, leading/embedded/trailing blanks, delimiter characters, quotes), every ordered pair of "
        "adjacent field kinds incl. last-field x first-field, delimiters , : tab space ; |, rows 1-40; written and "
        "read through sfile.write/read, SFile and Recfile(delim=); every cell compared (integers/strings exactly, "
        "floats to one unit in the 16th/7th significant digit); signature = (route, delimiter, adjacent kind pairs, "
        "byte order, sub-array ndim, string class)")
TRUSTED = ["numpy long double for the unit-in-last-digit comparison"]
ASSUMPTIONS = ["strings contain no newline and no byte >= 0x80; doubles whose 16-digit rounding overflows are not generated",
               "sign of zero is not compared"]
THOROUGH_ROUNDS = 8      # the thorough tier runs the generator over this many derived seeds
REQUIRED = {"quick": {"C04.cells": 750, "C04.header": 400, "C04.file": 750},
            "thorough": {"C04.cells": 15000, "C04.header": 8000, "C04.file": 15000}}
ROUTES = ["sfile", "SFile", "Recfile", "io"]


def cases(seed, tier):
    n = 900 if tier == "quick" else 18000
    rng = np.random.default_rng([seed, 4])
    fams = ["mixed", "int-extremes", "float-decades", "strings", "layout-of-fields", "subarrays"]
    for i in range(n):
        yield {"family": fams[i % 6], "delim": rs.DELIMS[(i // 6) % 6], "route": ROUTES[(i // 36) % 4],
               "sub": int(rng.integers(0, 2**31))}
    for j, B in enumerate([4096, 8192, 16384, 65536] if tier == "quick" else [512, 1024, 2048, 4096, 8192, 12288, 16384, 32768, 65536, 131072]):
        yield {"family": "header-size", "boundary": B, "delim": rs.DELIMS[1 + j % 5], "route": "sfile", "sub": int(rng.integers(0, 2**31))}
    for j in range(1 if tier == "quick" else 3):
        yield {"family": "aligned-rows", "delim": ",", "route": "recfile", "sub": int(rng.integers(0, 2**31))}


def install():
    rs.instrument_all()


def run_header_size(case):
    """text files whose header ends just before, on and just after a block boundary (every byte offset from -40 to
    +40): the reader that looks for the END line must find it wherever a buffered read cuts it"""
    from esutil import sfile
    rng = np.random.default_rng(case["sub"])
    B, delim = case["boundary"], case["delim"]
    d = os.environ.get("VERIF_CASEDIR", ".")
    path = os.path.join(d, "c04h_%d.rec" % case["_i"])
    t = np.zeros(3, dtype=[("END", "<i4"), ("s", "S4"), ("k", ">i8"), ("TREND", "<u2", (2,))])
    t["END"] = [1, -2, 2147483647]
    t["s"] = [b"END", b"ab", b"x y" if delim != " " else b"xy"]
    t["k"] = [-9223372036854775807, 0, 77]
    t["TREND"] = [[1, 2], [65535, 0], [3, 4]]

    def write(k):
        sfile.write(path, t, delim=delim, header={"pad": "p" * k, "END": "SIZE = 3"})
        raw = open(path, "rb").read()
        i = raw.find(b"\nEND\n\n")
        return i

    k = max(1, B - 300)
    pos = write(k)
    if pos < 0:
        COL.violation("C04.cells", "no END line found in a freshly written text file", {"boundary": B})
        return
    k = max(1, k + (B - 40 - pos))
    for kk in range(k, k + 81):
        try:
            pos = write(kk)
        except Exception as e:
            COL.violation("C04.cells", "sfile.write (text, %d-byte header) raised %s: %s" % (kk, type(e).__name__, str(e)[:140]), {"boundary": B, "pad": kk})
            continue
        wit = {"boundary": B, "end_line_offset": pos, "delim": delim}
        got, e = probe.attempt(sfile.read, path, header=True)
        if e is not None:
            COL.violation("C04.cells", "text file whose END line starts at byte %d (block boundary %d%+d): sfile.read raised %s: %s" % (
                pos, B, pos - B, type(e).__name__, str(e)[:140]), wit, key="header-size/read-raised")
            continue
        data, hdr = got
        same = isinstance(data, np.ndarray) and data.size == 3 and data.dtype.names == t.dtype.names and all(
            np.array_equal(data[n], t[n]) for n in t.dtype.names) and hdr.get("pad") == "p" * kk
        if same:
            COL.ok("C04.cells", ("header-size", delim, B, pos - B))
        else:
            COL.violation("C04.cells", "text file whose END line starts at byte %d (block boundary %d%+d): rows or header differ from what was written" % (
                pos, B, pos - B), wit, key="header-size/differs")
    try:
        os.unlink(path)
    except OSError:
        pass


def make_table(case, rng):
    fam = case["family"]
    from vlib import gen
    if fam == "int-extremes":
        return rs.text_table(rng, kinds=gen.INTS)
    if fam == "float-decades":
        return rs.text_table(rng, kinds=gen.FLOATS)
    if fam == "strings":
        return rs.text_table(rng, kinds=["S", "S", "S", "i4"])
    if fam == "subarrays":
        if rng.random() < .5:
            # every field wider than one byte is a sub-array (a field's own dtype then reports no byte order, only its base
            # does); strings and single bytes alongside; both byte orders
            bo = str(rng.choice(["<", ">"]))
            names = list(rs.FIELD_NAMES)
            rng.shuffle(names)
            descr = []
            for i in range(int(rng.integers(1, 5))):
                k = str(rng.choice(["i2", "i4", "i8", "u2", "u4", "f4", "f8", "S", "u1", "i1"]))
                if k == "S":
                    descr.append((names[i], "S%d" % int(rng.integers(1, 7))))
                elif k in ("u1", "i1"):
                    descr.append((names[i], "|" + k))
                else:
                    descr.append((names[i], bo + k, (int(rng.integers(1, 4)),) if rng.random() < .6 else (2, int(rng.integers(1, 3)))))
            a = np.zeros(int(rng.choice([1, 2, 5])), dtype=descr)
            return rs.fill_text(rng, a)
        a = rs.text_table(rng, nfields=int(rng.integers(1, 4)))
        return a
    if fam == "layout-of-fields":
        # every ordered pair of adjacent kinds: numeric->string, string->numeric, string->string, last x first
        kinds = [["i4", "S"], ["S", "i4"], ["S", "S"], ["f8", "S"], ["S", "f4"], ["i8", "S", "f8"], ["S", "u1", "S"],
                 ["f4", "i2"], ["S", "f8", "S", "i1"]][int(rng.integers(0, 9))]
        bo = str(rng.choice(["<", ">"]))
        names = list(rs.FIELD_NAMES)
        rng.shuffle(names)
        descr = [gen.field_descr(rng, names[i], [k], byteorders=(bo,), subarrays=rng.random() < .2, maxsub=1) for i, k in enumerate(kinds)]
        a = np.zeros(int(rng.choice([2, 3, 10])), dtype=descr)
        return rs.fill_text(rng, a)
    return rs.text_table(rng)


def string_class(table):
    cls = set()
    for n in table.dtype.names:
        if table.dtype.fields[n][0].base.kind == "S":
            for v in table[n].ravel()[:50]:
                if v[:1] == b" ":
                    cls.add("leading-blank")
                if v == b"":
                    cls.add("empty")
                if v.strip() == b"" and v != b"":
                    cls.add("all-blank")
    return tuple(sorted(cls))


def classify(table, delim, what_field, names):
    """D10 mechanism: some string field holds a cell beginning with white space while its predecessor in file
    order is numeric, for a delimiter the scan format treated as white space (tab), or across the row boundary
    (first field a string, last field numeric, any non-space delimiter).  Derived from the table, not from the cell
    where the misalignment finally surfaced."""
    if delim == " ":
        return None
    kinds = [table.dtype.fields[n][0].base.kind for n in names]
    for i, n in enumerate(names):
        if kinds[i] != "S":
            continue
        lead = any(bytes(v)[:1] in (b" ", b"\t") for v in np.atleast_1d(table[n]).ravel())
        if not lead:
            continue
        if i > 0 and kinds[i - 1] in "iuf" and delim == "\t":
            return "text-read/leading-whitespace-after-numeric"
        if i == 0 and kinds[-1] in "iuf" and table.size > 1:
            return "text-read/leading-whitespace-after-numeric"
    return None


def run_aligned_rows(case):
    """A text file of more than 16 MiB whose lines all have the same power-of-two length (two 15-digit integers would
    give 32 bytes, one gives 16): every power-of-two offset - whatever block size a reader counts or scans lines in - is
    a line end.  Read through the route that has to count the rows itself (no header, no nrows)."""
    from esutil import recfile
    rng = np.random.default_rng(case["sub"])
    d = os.environ.get("VERIF_CASEDIR", ".")
    path = os.path.join(d, "c04a_%d.rec" % case["_i"])
    two = bool(rng.integers(0, 2))
    n = (2 ** 24 // (32 if two else 16)) + int(rng.integers(3, 2000))
    t = np.zeros(n, dtype=[("a", "<i8")] + ([("b", ">i8")] if two else []))
    t["a"] = 10 ** 14 + np.arange(n, dtype="i8") * 7
    if two:
        t["b"] = 10 ** 15 - 1 - np.arange(n, dtype="i8") * 3
    delim = str(rng.choice([",", " ", "\t", ":"]))
    wit = {"rows": n, "row_bytes": 32 if two else 16, "delim": delim}
    COL.sample(dict(wit, family="aligned-rows"), limit=2)
    try:
        recfile.write(path, t, delim=delim)
    except Exception as e:
        COL.violation("C04.cells", "recfile.write of %d rows raised %s: %s" % (n, type(e).__name__, str(e)[:140]), wit)
        return
    size = os.path.getsize(path)
    got, e = probe.attempt(recfile.read, path, t.dtype, delim=delim)
    if e is not None:
        COL.violation("C04.cells", "recfile.read of a %d-byte text file raised %s: %s" % (size, type(e).__name__, str(e)[:140]), wit)
    elif size != n * (32 if two else 16):
        COL.violation("C04.file", "the text file has %d bytes for %d rows of %d bytes" % (size, n, 32 if two else 16), wit)
    elif got.size != n or not all(np.array_equal(got[k], t[k]) for k in t.dtype.names):
        COL.violation("C04.cells", "text file of %d rows (%d bytes, every line %d bytes): read returns %d rows%s" % (
            n, size, 32 if two else 16, got.size, "" if got.size != n else " with other values"), wit, key="aligned-rows")
    else:
        COL.ok("C04.cells", ("aligned-rows", two, delim))
    try:
        os.unlink(path)
    except OSError:
        pass


def run_case(case):
    if case["family"] == "header-size":
        return run_header_size(case)
    if case["family"] == "aligned-rows":
        return run_aligned_rows(case)
    from esutil import sfile, recfile
    import esutil.io as eio
    rng = np.random.default_rng(case["sub"])
    table = make_table(case, rng)
    delim, route = case["delim"], case["route"]
    d = os.environ.get("VERIF_CASEDIR", ".")
    path = os.path.join(d, "c04_%d.rec" % case["_i"])
    names = list(table.dtype.names)
    kinds = tuple(table.dtype.fields[n][0].base.kind for n in names)
    pairs = tuple(sorted(set(zip(kinds[:-1], kinds[1:])) | {("last-first", kinds[-1], kinds[0])}))
    sig = (route, delim, pairs, tuple(sorted(set(table.dtype.fields[n][0].base.byteorder for n in names))),
           max(len(table.dtype.fields[n][0].shape) for n in names), string_class(table))
    wit = {"descr": repr(table.dtype.descr)[:300], "delim": delim, "route": route, "nrows": int(table.size),
           "row0": repr(table[0])[:300]}
    COL.sample({"family": case["family"], "delim": delim, "route": route, "descr": repr(table.dtype.descr)[:160],
                "row0": repr(table[0])[:160]}, limit=8)
    header = {"note": "x"} if rng.random() < .3 else None
    data = gen.maybe_view(rng, table.copy(), p=0.25)       # sometimes a non-contiguous view of a larger buffer
    try:
        if route == "sfile":
            sfile.write(path, data, delim=delim, header=header)
        elif route == "io":
            eio.write(path, data, delim=delim, header=header)
        elif route == "SFile":
            if rng.random() < .3:
                # one SFile object re-used: its previous open() was of another text file - read normally, or failing
                # after the header had been read (a file that says it holds 0 rows) - then open(path, 'w')
                other = path + ".other"
                sfile.write(other, data[:1].copy() if rng.random() < .5 else rs.text_table(rng, nrows=2), delim=delim, header={"first": 1})
                sf = sfile.SFile()
                if rng.random() < .5:
                    raw0 = open(other, "rb").read()
                    open(other, "wb").write(b"SIZE = %20d" % 0 + raw0[raw0.find(b"\n"):])
                try:
                    sf.open(other)
                    sf.read()
                except Exception:
                    pass
                sf.open(path, "w", delim=delim)
                sf.write(data, header=header)
                sf.close()
                os.unlink(other)
            else:
                with sfile.SFile(path, "w", delim=delim) as sf:
                    sf.write(data, header=header)
        else:
            with recfile.Recfile(path, "w", delim=delim) as rf:
                rf.write(data)
    except Exception as e:
        COL.violation("C04.cells", "write (%s, delim %r) raised %s: %s" % (route, delim, type(e).__name__, str(e)[:160]), wit)
        return
    raw = open(path, "rb").read()
    start = 0 if route == "Recfile" else rs.data_start(raw)
    if start is None:
        COL.violation("C04.file", "no END line in the text file", wit)
        return
    body = raw[start:]
    if body.count(b"\n") == table.size and body.endswith(b"\n"):
        COL.ok("C04.file", (route, delim))
    else:
        COL.violation("C04.file", "text body has %d newline characters for %d rows" % (body.count(b"\n"), table.size), wit)
    hdr = None
    try:
        if route == "sfile":
            res, hdr = sfile.read(path, header=True)
        elif route == "io":
            res, hdr = eio.read(path, header=True)
        elif route == "SFile":
            with sfile.SFile(path) as sf:
                res = sf.read() if rng.random() < .5 else sf[:]
                hdr = sf.get_header()
        else:
            with recfile.Recfile(path, "r", dtype=table.dtype, delim=delim, nrows=table.size if rng.random() < .5 else None) as rf:
                res = rf.read()
    except Exception as e:
        # which field? unknown: classify on every string field
        key = None
        for n in names:
            key = key or classify(table, delim, n, names)
        COL.violation("C04.cells", "read (%s, delim %r) raised %s: %s" % (route, delim, type(e).__name__, str(e)[:160]), wit, key=key)
        return
    bad = None
    badfield = None
    if not isinstance(res, np.ndarray) or res.dtype.names != table.dtype.names:
        bad = "field names %r != %r" % (getattr(getattr(res, "dtype", None), "names", None), table.dtype.names)
    elif res.shape != table.shape:
        bad = "%d rows read, %d written" % (res.size, table.size)
    else:
        for n in names:
            fr, ft = res.dtype.fields[n][0], table.dtype.fields[n][0]
            if fr.shape != ft.shape or fr.base.kind != ft.base.kind or fr.base.itemsize != ft.base.itemsize:
                bad = "field %r has type %r, written %r" % (n, fr, ft)
                break
            if fr.base.byteorder not in "=|":
                bad = "field %r is not in native byte order (%r)" % (n, fr.base.byteorder)
                break
            ok, idx, what = rs.text_cells_equal(table[n], res[n])
            if not ok:
                bad = "field %r cell %r: %s" % (n, idx, what)
                badfield = n
                break
    if bad:
        COL.violation("C04.cells", "text round trip (%s, delim %r): %s" % (route, delim, bad), wit,
                      key=classify(table, delim, badfield, names))
    else:
        COL.ok("C04.cells", sig)
    if hdr is not None:
        hb = None
        if hdr.get("_DELIM") != delim:
            hb = "_DELIM is %r, delimiter used %r" % (hdr.get("_DELIM"), delim)
        elif hdr.get("_SIZE") != table.size:
            hb = "_SIZE %r" % hdr.get("_SIZE")
        else:
            try:
                for dsc in hdr["_DTYPE"]:
                    if str(dsc[1])[0] in "<>=|":
                        hb = "_DTYPE carries byte-order characters: %r" % (dsc,)
                        break
                if not hb and rs.dtype_signature(np.dtype(hdr["_DTYPE"]).newbyteorder("=")) != rs.dtype_signature(table.dtype.newbyteorder("=")):
                    hb = "_DTYPE %r does not describe the written fields" % (hdr["_DTYPE"],)
            except Exception as e:
                hb = "_DTYPE unusable: %r" % e
        if header and not hb and hdr.get("note") != "x":
            hb = "user key lost"
        if hb:
            COL.violation("C04.header", hb, wit)
        else:
            COL.ok("C04.header", (route, delim))
    try:
        os.unlink(path)
    except OSError:
        pass
