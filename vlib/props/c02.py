"""C02 Row/column subset reads equal indexing the fully-read table."""
import itertools
import os

import numpy as np

from vlib import gen, probe
from vlib.probe import COL
from vlib.props import recshared as rs

ID = "C02"
NATIVE = True
SAN_STRIDE = {"quick": 3, "thorough": 4}
MAX_SAN_WORKERS = 8
RULE = ("seeded tables (C01 binary dtypes with raw cell bytes; C04 text dtypes) with n in {1,2,3,4,7,30} rows and "
        "delimiters None , : tab space; per table: slices enumerated exhaustively over start, stop in {None} u "
        "[-n-2, n+2] x step in {None,1,2,3,n+1} (n <= 7), row lists (sorted, unsorted, repeated, single element, "
        "tuples, ndarrays of several integer dtypes), scalar rows in [-n, n), every non-empty column subset for <= 4 "
        "fields in several orders and as list/tuple/ndarray/scalar name, row x column combinations, split / reduce; "
        "each selection is driven through every access style (Recfile.read, Recfile[...], Recfile[cols][rows], "
        "Recfile[cols].read, SFile.read, SFile[...], SFile[cols][rows], sfile.read) and compared on dtype structure "
        "and raw bytes with the same selection applied to the table read in full through the same handle; "
        "out-of-range row lists must be rejected; the same integer/string table stored in binary and text form "
        "must give equal values for every selection.  signature = (form, delimiter, n, access style, selection "
        "class, column class)")
TRUSTED = ["numpy fancy/slice indexing of the fully-read table and np.unique", "Python slice semantics (slice.indices via ndarray slicing)"]
ASSUMPTIONS = ["positive slice steps; scalar rows within [-n, n); no empty row lists; single-element row lists are non-negative "
               "or below -n; no duplicate column names in a selection; a scalar column name is not combined with split=True"]
THOROUGH_ROUNDS = 4      # the thorough tier runs the generator over this many derived seeds
REQUIRED = {"quick": {"C02.rows": 4000, "C02.slice": 15000, "C02.columns": 1500, "C02.rowcol": 2500, "C02.reject": 300,
                      "C02.bin-vs-text": 400},
            "thorough": {"C02.rows": 60000, "C02.slice": 400000, "C02.columns": 25000, "C02.rowcol": 40000,
                         "C02.reject": 5000, "C02.bin-vs-text": 8000}}
DELIMS = [None, ",", ":", "\t", " "]
WATCHDOG = {"quick": 900, "thorough": 7200}
CASE_TIMEOUT = 600


def cases(seed, tier):
    rng = np.random.default_rng([seed, 2])
    out = []
    if tier == "quick":
        ns_slice, reps, nsel = [1, 2, 3, 4], 3, 180
    else:
        ns_slice, reps, nsel = [1, 2, 3, 4, 5, 6, 7], 8, 3000
    for rep in range(reps):
        for di, delim in enumerate(DELIMS):
            out.append({"family": "slices-exhaustive", "delim": delim, "n": int(ns_slice[(rep + di) % len(ns_slice)]),
                        "sub": int(rng.integers(0, 2**31))})
    if tier == "thorough":
        for n in ns_slice:                       # every n at least once for binary and one text delimiter
            for delim in (None, ","):
                out.append({"family": "slices-exhaustive", "delim": delim, "n": n, "sub": int(rng.integers(0, 2**31))})
    for i in range(nsel):
        fam = ["rowlists", "columns", "rowcol", "reject", "bin-vs-text", "slices-sampled"][i % 6]
        out.append({"family": fam, "delim": DELIMS[(i // 6) % 5], "n": int([1, 2, 3, 4, 7, 30][(i // 30) % 6]),
                    "sub": int(rng.integers(0, 2**31))})
    for i in range(1 if tier == "quick" else 4):
        out.append({"family": "big-binary", "delim": None, "n": 0, "sub": int(rng.integers(0, 2**31))})
    out.append({"family": "huge-sparse", "delim": None, "n": 0, "sub": int(rng.integers(0, 2**31))})
    return out


def run_big_binary(case, rng, path):
    """a binary table of 18-40 MB (row size from a small random dtype, rarely a power of two): strided and plain slices
    through the recfile and the sfile route against numpy indexing of the table that was written"""
    from esutil import sfile, recfile
    descr = [("id", "<i4"), ("x", ">f8"), ("tag", "S%d" % int(rng.integers(1, 13)))] + ([("k", "<u2")] if rng.random() < .5 else [])
    rowsize = np.dtype(descr).itemsize
    n = int(rng.uniform(18, 40) * 2 ** 20 / rowsize)
    table = np.zeros(n, dtype=descr)
    table["id"] = np.arange(n, dtype="i8") % (2 ** 31 - 1)
    table["x"] = np.arange(n) * 0.5
    table["tag"] = np.array([b"a", b"bc", b"xyz"])[np.arange(n) % 3]
    COL.sample({"family": "big-binary", "n": n, "rowsize": rowsize}, limit=2)
    wit = {"n": n, "rowsize": rowsize}
    sfile.write(path, table)
    rpath = path + ".raw"
    with recfile.Recfile(rpath, "w") as rf:
        rf.write(table)
    sels = [slice(None, None, 2), slice(None, None, 3), slice(None, None, 7), slice(1, None, 3), slice(5, n - 3, 5),
            slice(-n - 2, n + 2, int(rng.integers(2, 12))), slice(int(rng.integers(0, n // 2)), int(rng.integers(n // 2, n)), int(rng.integers(2, 9))),
            slice(n - 5, None), slice(None, 4)]
    with sfile.SFile(path) as sf, recfile.Recfile(rpath, dtype=table.dtype, nrows=n) as rf:
        for sl in sels:
            exp = table[sl]
            for nm, ob in (("SFile", sf), ("Recfile", rf)):
                got, e = probe.attempt(ob.__getitem__, sl)
                if e is not None:
                    COL.violation("C02.slice", "%s[%r] on a %d-row binary table raised %s: %s" % (nm, sl, n, type(e).__name__, str(e)[:120]), wit)
                elif got.shape != exp.shape or got.tobytes() != exp.tobytes():
                    j = int(np.nonzero(got["id"] != exp["id"])[0][0]) if got.shape == exp.shape and (got["id"] != exp["id"]).any() else -1
                    COL.violation("C02.slice", "%s[%r] on a %d-row binary table (%d-byte rows) differs from indexing the table at output row %d" % (
                        nm, sl, n, rowsize, j), wit, key="big-binary-slice")
                else:
                    COL.ok("C02.slice", ("big", nm, sl.step or 1, rowsize))
    for f in (path, rpath):
        try:
            os.unlink(f)
        except OSError:
            pass


def run_huge_sparse(case, rng, path):
    """a binary table of more than 2^32 one-byte rows (a sparse file: nothing but a few marked rows is ever written):
    row lists whose members lie more than 2^31 and 2^32 rows apart, through the keyword and the bracket route"""
    from esutil import recfile
    N = 2 ** 32 + 4096
    marks = sorted(set([3, 2 ** 31 - 1, 2 ** 31, 2 ** 31 + 3, 2 ** 32 - 1, 2 ** 32, 2 ** 32 + 6, N - 1] + [int(x) for x in rng.integers(0, N, size=4)]))
    try:
        with open(path, "wb") as f:
            f.truncate(N)
            for k, m in enumerate(marks):
                f.seek(m)
                f.write(bytes([11 + k]))
    except OSError as e:
        COL.skipped("C02.rows", "huge-sparse/file-system-refused:%s" % type(e).__name__)
        return
    val = {m: 11 + k for k, m in enumerate(marks)}
    COL.sample({"family": "huge-sparse", "rows": N}, limit=1)
    dt = np.dtype([("a", "u1")])
    with recfile.Recfile(path, dtype=dt, nrows=N) as rf:
        for _ in range(8):
            sel = sorted(set([marks[int(i)] for i in rng.integers(0, len(marks), size=int(rng.integers(1, 5)))] + [int(x) for x in rng.integers(0, N, size=int(rng.integers(0, 3)))]))
            exp = np.array([val.get(r, 0) for r in sel], dtype="u1")
            for nm, f in (("read(rows=)", lambda: rf.read(rows=sel)), ("[rows]", lambda: rf[np.array(sel, dtype="i8")])):
                got, e = probe.attempt(f)
                if e is not None:
                    COL.violation("C02.rows", "%s on a table of 2^32+4096 rows raised %s: %s" % (nm, type(e).__name__, str(e)[:120]), {"rows": sel})
                elif got["a"].tolist() != exp.tolist():
                    COL.violation("C02.rows", "%s of rows %r on a table of 2^32+4096 rows returns %r, the file holds %r" % (nm, sel, got["a"].tolist(), exp.tolist()),
                                  {"rows": sel}, key="huge-sparse")
                else:
                    COL.ok("C02.rows", ("huge-sparse", nm, len(sel)))
    try:
        os.unlink(path)
    except OSError:
        pass


def install():
    probe.enable_recall("C02.recall", every=5)
    rs.instrument_all()


# ---------------------------------------------------------------------------------------------------------------

def make_table(rng, delim, n, exact=False, simple_strings=False):
    if delim is None and not exact:
        t = rs.bin_table(rng, nrows=n, nfields=int(rng.integers(1, 7)))
    else:
        t = rs.text_table(rng, nrows=n, nfields=int(rng.integers(1, 7)), exact=exact,
                          order=("<" if exact else None))
        if simple_strings:
            for nm in t.dtype.names:
                b = t.dtype.fields[nm][0].base
                if b.kind == "S":
                    v = t[nm]
                    alphabet = np.array(list("abcXYZ019_"))
                    vals = ["".join(rng.choice(alphabet, size=int(rng.integers(1, b.itemsize + 1)))) for _ in range(max(v.size, 1))]
                    v[...] = np.array(vals, dtype=b).reshape(v.shape)
    return t


def row_lists(rng, n, k):
    """k row selections inside [0, n): (value as passed, class)"""
    out = []
    for i in range(k):
        m = i % 8
        if m == 0:
            r = sorted(set(rng.integers(0, n, size=int(rng.integers(1, n + 2))).tolist()))
            cls = "sorted"
        elif m == 1:
            r = rng.permutation(n)[: int(rng.integers(1, n + 1))].tolist()
            cls = "unsorted"
        elif m == 2:
            r = rng.integers(0, n, size=int(rng.integers(2, 2 * n + 3))).tolist()
            cls = "repeated"
        elif m == 3:
            r = [int(rng.integers(0, n))]
            cls = "single"
        elif m == 4:
            r = tuple(rng.integers(0, n, size=int(rng.integers(1, n + 2))).tolist())
            cls = "tuple"
        elif m == 5:
            dt = str(rng.choice(["i8", "i4", "i2", "u1", "u8", ">i4", "i1"]))
            r = rng.integers(0, min(n, 127), size=int(rng.integers(1, n + 2))).astype(dt)
            cls = "ndarray-" + dt
        elif m == 6:
            r = list(range(n))
            rng.shuffle(r)
            cls = "all-rows-permuted"
        else:
            r = np.arange(n)[::-1][:: int(rng.integers(1, 3))]       # strided, descending int array
            cls = "ndarray-strided-descending"
        out.append((r, cls))
    return out


def col_selections(rng, names, k):
    """column selections: (value as passed, class).  Every non-empty subset for <= 4 fields, else random ones."""
    sels = []
    nf = len(names)
    subsets = []
    if nf <= 4:
        for r in range(1, nf + 1):
            subsets += [list(c) for c in itertools.combinations(names, r)]
    else:
        for _ in range(k):
            r = int(rng.integers(1, nf + 1))
            subsets.append([names[i] for i in sorted(rng.permutation(nf)[:r])])
    for s in subsets:
        order = int(rng.integers(0, 3))
        s2 = list(s)
        if order == 1:
            s2 = s2[::-1]
        elif order == 2:
            rng.shuffle(s2)
        form = int(rng.integers(0, 4))
        if form == 0:
            sels.append((s2, "list"))
        elif form == 1:
            sels.append((tuple(s2), "tuple"))
        elif form == 2:
            sels.append((np.array(s2), "ndarray"))
        else:
            sels.append((s2, "list"))
        if len(s) == 1:
            sels.append((s[0], "scalar"))
            sels.append((np.str_(s[0]), "scalar-np"))
    rng.shuffle(sels)
    return sels[: max(k, 1)] if nf > 4 else sels


def scalar_rows(rng, n):
    return [int(x) for x in range(-n, n)] if n <= 7 else [0, -1, n - 1, -n, int(rng.integers(-n, n)), int(rng.integers(-n, n))]


def all_slices(n):
    vals = [None] + list(range(-n - 2, n + 3))
    for start in vals:
        for stop in vals:
            for step in (None, 1, 2, 3, n + 1):
                yield slice(start, stop, step)


def slice_class(s, n):
    def c(v):
        return "N" if v is None else ("<-n" if v < -n else "neg" if v < 0 else ">n" if v > n else "pos")
    exp = len(range(*s.indices(n)))
    return (c(s.start), c(s.stop), s.step, "empty" if exp == 0 else "all" if exp == n else "some")


class Handles:
    def __init__(self, path, delim, dtype, n, start):
        from esutil import sfile, recfile
        self.path, self.delim = path, delim
        self.sf = sfile.SFile(path)
        self.rf = recfile.Recfile(path, dtype=dtype, delim=delim, offset=start, nrows=n)
        self.rf_count = recfile.Recfile(path, dtype=dtype, delim=delim, offset=start)

    def close(self):
        for h in (self.sf, self.rf, self.rf_count):
            try:
                h.close()
            except Exception:
                pass


def expect(full, rows, cols):
    e, reject = rs.select_rows(full, rows)
    if reject:
        return None, True
    e, plain = rs.select_cols(e, cols)
    return e, False


def same(got, exp, scalar_row=False):
    if isinstance(got, np.ndarray) and scalar_row and got.shape == () and exp.shape == (1,):
        got = got.reshape(1)
    return rs.equal_arrays(got, exp)


def judge(monitor, style, fn, exp, sig, wit, scalar_row=False, split_of=None, key=None):
    res, e = probe.attempt(fn)
    if e is not None:
        COL.violation(monitor, "%s raised %s: %s" % (style, type(e).__name__, str(e)[:140]), dict(wit, style=style), key=key)
        return None
    if split_of is not None:
        ok = isinstance(res, (tuple, list)) and len(res) == len(split_of.dtype.names) and all(
            rs.equal_arrays(np.asarray(r), np.ascontiguousarray(split_of[nm])) for r, nm in zip(res, split_of.dtype.names))
        if not ok:
            COL.violation(monitor, "%s: split result is not the tuple of the selected columns in file order" % style,
                          dict(wit, style=style, got=repr(res)[:300]), key=key)
            return None
        COL.ok(monitor, sig + (style,))
        return res
    if not same(res, exp, scalar_row):
        COL.violation(monitor, "%s differs from the same selection on the fully-read table" % style,
                      dict(wit, style=style, got=_short(res), expected=_short(exp)), key=key)
        return None
    COL.ok(monitor, sig + (style,))
    return res


def _short(a):
    if isinstance(a, np.ndarray):
        return "%s %s %s" % (a.dtype.descr if a.dtype.names else a.dtype.str, a.shape, repr(a.tolist())[:260])
    return repr(a)[:300]


# ---------------------------------------------------------------------------------------------------------------

def row_styles(h, rows, bracket=True):
    from esutil import sfile
    st = [("Recfile.read(rows)", lambda: h.rf.read(rows=rows)),
          ("SFile.read(rows)", lambda: h.sf.read(rows=rows)),
          ("sfile.read(rows)", lambda: sfile.read(h.path, rows=rows)),
          ("Recfile-countrows.read(rows)", lambda: h.rf_count.read(rows=rows))]
    if bracket:
        st += [("Recfile[rows]", lambda: h.rf[rows]), ("SFile[rows]", lambda: h.sf[rows])]
    return st


def col_styles(h, cols):
    from esutil import sfile
    return [("Recfile.read(columns)", lambda: h.rf.read(columns=cols)),
            ("Recfile.read(fields)", lambda: h.rf.read(fields=cols)),
            ("Recfile[cols][:]", lambda: h.rf[cols][:]),
            ("Recfile[cols].read()", lambda: h.rf[cols].read()),
            ("SFile.read(columns)", lambda: h.sf.read(columns=cols)),
            ("SFile.read(fields)", lambda: h.sf.read(fields=cols)),
            ("SFile[cols][:]", lambda: h.sf[cols][:]),
            ("sfile.read(columns)", lambda: sfile.read(h.path, columns=cols)),
            ("sfile.read(fields)", lambda: sfile.read(h.path, fields=cols))]


def rowcol_styles(h, rows, cols, bracket=True):
    from esutil import sfile
    st = [("Recfile.read(rows,columns)", lambda: h.rf.read(rows=rows, columns=cols)),
          ("Recfile.read(rows,fields)", lambda: h.rf.read(rows=rows, fields=cols)),
          ("Recfile[cols].read(rows)", lambda: h.rf[cols].read(rows=rows)),
          ("SFile.read(rows,columns)", lambda: h.sf.read(rows=rows, columns=cols)),
          ("sfile.read(rows,columns)", lambda: sfile.read(h.path, rows=rows, columns=cols))]
    if bracket:
        st += [("Recfile[cols][rows]", lambda: h.rf[cols][rows]), ("SFile[cols][rows]", lambda: h.sf[cols][rows])]
    return st


def slice_key(style, s, n, delim):
    return None


def write_file(path, table, delim):
    from esutil import sfile
    sfile.write(path, table.copy(), delim=delim)
    raw = open(path, "rb").read()
    return rs.data_start(raw)


def run_case(case):
    from esutil import sfile
    rng = np.random.default_rng(case["sub"])
    fam, delim, n = case["family"], case["delim"], case["n"]
    d = os.environ.get("VERIF_CASEDIR", ".")
    path = os.path.join(d, "c02_%d.rec" % case["_i"])
    if fam == "bin-vs-text":
        return run_bin_vs_text(case, rng, path)
    if fam == "big-binary":
        return run_big_binary(case, rng, path)
    if fam == "huge-sparse":
        return run_huge_sparse(case, rng, path)
    table = make_table(rng, delim, n)
    start = write_file(path, table, delim)
    names = list(table.dtype.names)
    form = "binary" if delim is None else "text"
    base = (form, delim, n)
    wit0 = {"descr": repr(table.dtype.descr)[:300], "delim": delim, "nrows": n}
    COL.sample({"family": fam, "delim": delim, "n": n, "descr": repr(table.dtype.descr)[:140]}, limit=8)
    h = Handles(path, delim, table.dtype, n, start)
    try:
        full, e = probe.attempt(h.sf.read)
        if e is not None or not isinstance(full, np.ndarray) or full.size != n:
            COL.skipped("C02.rows", "full-read-failed (C01/C04 territory)")
            return
        full2 = h.rf.read()
        if not rs.equal_arrays(full2, full):
            COL.violation("C02.rows", "Recfile.read() and SFile.read() disagree on the fully-read table", wit0)
            return
        if fam == "slices-exhaustive" or fam == "slices-sampled":
            slices = list(all_slices(n)) if fam == "slices-exhaustive" else [
                slice(*[None if rng.random() < .2 else int(rng.integers(-n - 2, n + 3)) for _ in range(2)],
                      [None, 1, 2, 3, n + 1, 5][int(rng.integers(0, 6))]) for _ in range(60)]
            csel = col_selections(rng, names, 2)
            cols_list = next((c for c, k in csel if k in ("list", "tuple", "ndarray")), [names[0]])
            col_scalar = names[int(rng.integers(0, len(names)))]
            for s in slices:
                exp = full[s]
                sc = slice_class(s, n)
                wit = dict(wit0, selection=repr(s))
                judge("C02.slice", "Recfile[slice]", lambda: h.rf[s], exp, base + sc, wit)
                judge("C02.slice", "SFile[slice]", lambda: h.sf[s], exp, base + sc, wit)
                expc, _ = rs.select_cols(exp, cols_list)
                judge("C02.slice", "Recfile[cols][slice]", lambda: h.rf[cols_list][s], expc, base + sc, dict(wit, columns=repr(cols_list)))
                judge("C02.slice", "SFile[cols][slice]", lambda: h.sf[cols_list][s], expc, base + sc, dict(wit, columns=repr(cols_list)))
                exps, _ = rs.select_cols(exp, col_scalar)
                judge("C02.slice", "Recfile[name][slice]", lambda: h.rf[col_scalar][s], exps, base + sc, dict(wit, columns=col_scalar))
            return
        if fam == "rowlists":
            for rows, cls in row_lists(rng, n, 24):
                exp, _ = expect(full, rows, None)
                wit = dict(wit0, selection=repr(rows)[:200])
                for style, fn in row_styles(h, rows):
                    judge("C02.rows", style, fn, exp, base + (cls,), wit)
                judge("C02.rows", "Recfile.read(rows,split)", lambda: h.rf.read(rows=rows, split=True), None, base + (cls, "split"), wit,
                      split_of=exp)
            for r in scalar_rows(rng, n):
                exp = full[[r % n]]
                wit = dict(wit0, selection=r)
                for rv, cls in ((r, "scalar"), (np.int64(r), "scalar-np")):
                    for style, fn in row_styles(h, rv):
                        judge("C02.rows", style, fn, exp, base + (cls, "neg" if r < 0 else "pos"), wit, scalar_row=True)
            return
        if fam == "columns":
            for cols, cls in col_selections(rng, names, 10):
                exp, plain = rs.select_cols(full, cols)
                wit = dict(wit0, columns=repr(cols)[:200])
                nsel = 1 if plain else len(exp.dtype.names)
                sig = base + (cls, min(nsel, 3), len(names))
                for style, fn in col_styles(h, cols):
                    judge("C02.columns", style, fn, exp, sig, wit)
                if not plain:
                    for style, fn in (("Recfile.read(columns,split)", lambda: h.rf.read(columns=cols, split=True)),
                                      ("Recfile[cols].read(split)", lambda: h.rf[cols].read(split=True)),
                                      ("SFile.read(columns,split)", lambda: h.sf.read(columns=cols, split=True)),
                                      ("sfile.read(columns,split)", lambda: sfile.read(path, columns=cols, split=True))):
                        judge("C02.columns", style, fn, None, sig + ("split",), wit, split_of=exp)
                    expr = exp[exp.dtype.names[0]] if nsel == 1 else exp
                    for style, fn in (("SFile.read(columns,reduce)", lambda: h.sf.read(columns=cols, reduce=True)),
                                      ("sfile.read(columns,reduce)", lambda: sfile.read(path, columns=cols, reduce=True))):
                        judge("C02.columns", style, fn, expr, sig + ("reduce",), wit)
            # no column selection, split / reduce on the whole table
            judge("C02.columns", "SFile.read(split)", lambda: h.sf.read(split=True), None, base + ("all", "split"), wit0, split_of=full)
            judge("C02.columns", "sfile.read(split)", lambda: sfile.read(path, split=True), None, base + ("all", "split"), wit0, split_of=full)
            expr = full[names[0]] if len(names) == 1 else full
            judge("C02.columns", "SFile.read(reduce)", lambda: h.sf.read(reduce=True), expr, base + ("all", "reduce", min(len(names), 2)), wit0)
            judge("C02.columns", "sfile.read(reduce)", lambda: sfile.read(path, reduce=True), expr, base + ("all", "reduce", min(len(names), 2)), wit0)
            return
        if fam == "rowcol":
            csel = col_selections(rng, names, 6)[:6]
            for (rows, rcls), (cols, ccls) in zip(row_lists(rng, n, 16), itertools.cycle(csel)):
                exp, _ = expect(full, rows, cols)
                wit = dict(wit0, selection=repr(rows)[:160], columns=repr(cols)[:160])
                for style, fn in rowcol_styles(h, rows, cols):
                    judge("C02.rowcol", style, fn, exp, base + (rcls, ccls), wit)
                if ccls not in ("scalar", "scalar-np"):
                    judge("C02.rowcol", "Recfile[cols].read(rows,split)", lambda: h.rf[cols].read(rows=rows, split=True), None,
                          base + (rcls, ccls, "split"), wit, split_of=exp)
                    expr = exp[exp.dtype.names[0]] if len(exp.dtype.names) == 1 else exp
                    judge("C02.rowcol", "SFile.read(rows,columns,reduce)", lambda: h.sf.read(rows=rows, columns=cols, reduce=True), expr,
                          base + (rcls, ccls, "reduce"), wit)
            for r in scalar_rows(rng, n)[:8]:
                cols, ccls = csel[int(rng.integers(0, len(csel)))]
                exp, _ = expect(full, r, cols)
                for style, fn in rowcol_styles(h, r, cols):
                    judge("C02.rowcol", style, fn, exp, base + ("scalar", ccls), dict(wit0, selection=r, columns=repr(cols)[:160]),
                          scalar_row=True)
            return
        if fam == "reject":
            bads = []
            for i in range(12):
                m = i % 6
                k = int(rng.integers(0, n + 1))
                inside = rng.integers(0, n, size=k).tolist()
                if m == 0:
                    r = inside + [n]
                elif m == 1:
                    r = [n + int(rng.integers(0, 5))]                       # single element, high
                elif m == 2:
                    r = [-1] + inside + [0]                                  # negative entry in a longer list
                elif m == 3:
                    r = np.array(inside + [n + 3], dtype="i4")
                elif m == 4:
                    r = [-n - 1 - int(rng.integers(0, 3))]                   # single element below -n
                else:
                    r = tuple([n, n + 1] + inside)
                rng.shuffle(r) if isinstance(r, list) and len(r) > 1 else None
                bads.append(r)
            cols = [names[0]]
            for r in bads:
                single = len(r) == 1
                sts = row_styles(h, r) + rowcol_styles(h, r, cols)
                for style, fn in sts:
                    res, e = probe.attempt(fn)
                    if e is None:
                        COL.violation("C02.reject", "%s accepted the out-of-range row list %r (n=%d)" % (style, list(np.asarray(r)), n),
                                      dict(wit0, selection=repr(r), style=style, got=_short(res)))
                    else:
                        COL.ok("C02.reject", base + (style, "single" if single else "list", type(r).__name__))
            return
    finally:
        h.close()
        try:
            os.unlink(path)
        except OSError:
            pass


def values_equal(a, b):
    if isinstance(a, tuple):
        return isinstance(b, tuple) and len(a) == len(b) and all(values_equal(x, y) for x, y in zip(a, b))
    if not isinstance(a, np.ndarray) or not isinstance(b, np.ndarray) or a.shape != b.shape:
        return False
    if (a.dtype.names is None) != (b.dtype.names is None):
        return False
    if a.dtype.names is None:
        return a.dtype.kind == b.dtype.kind and a.dtype.itemsize == b.dtype.itemsize and bool(np.all(a == b))
    return a.dtype.names == b.dtype.names and all(values_equal(np.ascontiguousarray(a[nm]), np.ascontiguousarray(b[nm])) for nm in a.dtype.names)


def run_bin_vs_text(case, rng, path):
    """the same integer/string table stored in binary and in text form: every selection gives equal values"""
    from esutil import sfile
    n = case["n"]
    delim = case["delim"] or ","
    table = make_table(rng, delim, n, exact=True, simple_strings=True)
    pb, pt = path + ".bin", path + ".txt"
    sb = write_file(pb, table, None)
    st = write_file(pt, table, delim)
    names = list(table.dtype.names)
    wit0 = {"descr": repr(table.dtype.descr)[:300], "delim": delim, "nrows": n}
    hb = Handles(pb, None, table.dtype, n, sb)
    ht = Handles(pt, delim, table.dtype, n, st)
    try:
        fb, ft = hb.sf.read(), ht.sf.read()
        if not values_equal(fb, ft):
            COL.skipped("C02.bin-vs-text", "full reads differ (C04 territory)")
            return
        base = ("both", delim, n)
        sels = []
        for rows, cls in row_lists(rng, n, 8):
            sels.append((cls, lambda h, rows=rows: h.rf.read(rows=rows), repr(rows)))
            sels.append((cls, lambda h, rows=rows: h.sf[rows], repr(rows)))
        for cols, cls in col_selections(rng, names, 6)[:8]:
            sels.append((cls, lambda h, cols=cols: h.sf.read(columns=cols), repr(cols)))
            sels.append((cls, lambda h, cols=cols: h.rf[cols][:], repr(cols)))
            rows = row_lists(rng, n, 2)[1][0]
            sels.append((cls + "+rows", lambda h, cols=cols, rows=rows: h.rf[cols][rows], repr((cols, rows))))
            if cls not in ("scalar", "scalar-np"):
                sels.append((cls + "+split", lambda h, cols=cols: h.sf.read(columns=cols, split=True), repr(cols)))
        for _ in range(30):
            s = slice(*[None if rng.random() < .2 else int(rng.integers(-n - 2, n + 3)) for _ in range(2)],
                      [None, 1, 2, 3, n + 1][int(rng.integers(0, 5))])
            sels.append((("slice",) + slice_class(s, n), lambda h, s=s: h.sf[s], repr(s)))
            sels.append((("slice-cols",) + slice_class(s, n), lambda h, s=s: h.rf[[names[0]]][s], repr(s)))
        for cls, fn, what in sels:
            rb, eb = probe.attempt(fn, hb)
            rt, et = probe.attempt(fn, ht)
            wit = dict(wit0, selection=what[:200])
            if (eb is None) != (et is None):
                COL.violation("C02.bin-vs-text", "selection %s: binary form %s, text form %s" % (
                    what[:80], "raised " + type(eb).__name__ if eb else "returned", "raised " + type(et).__name__ if et else "returned"), wit)
            elif eb is not None:
                COL.violation("C02.bin-vs-text", "selection %s raised in both forms: %s" % (what[:80], type(eb).__name__), wit)
            elif not values_equal(rb, rt):
                COL.violation("C02.bin-vs-text", "selection %s: binary and text forms give different values" % what[:80],
                              dict(wit, binary=_short(rb), text=_short(rt)))
            else:
                COL.ok("C02.bin-vs-text", base + (cls,))
    finally:
        hb.close()
        ht.close()
        for p in (pb, pt):
            try:
                os.unlink(p)
            except OSError:
                pass
