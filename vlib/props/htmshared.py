"""Shared pieces of the HTM properties C12/C13: point-set generators, the triangle-count cap and brute-force
separations in long double.  Nothing here calls esutil."""
import numpy as np

from vlib.refs import sphere as S

LD = np.longdouble
TRI_CAP = 2.0e4            # the circle search enumerates every triangle in the cap: keep cap_fraction * 8 * 4^depth below this


def max_depth(radius_deg, hi=13):
    r = min(float(radius_deg), 180.0)
    frac = (1.0 - np.cos(np.radians(r))) / 2.0
    d = hi
    while d > 1 and frac * 8 * 4.0 ** d > TRI_CAP:
        d -= 1
    return d


def sep_matrix(ra1, dec1, ra2, dec2):
    """(n1, n2) long-double separations in degrees, atan2(|a x b|, a.b)"""
    a = S.unit(ra1, dec1)        # (3, n1)
    b = S.unit(ra2, dec2)        # (3, n2)
    ax, ay, az = a[0][:, None], a[1][:, None], a[2][:, None]
    bx, by, bz = b[0][None, :], b[1][None, :], b[2][None, :]
    cx = ay * bz - az * by
    cy = az * bx - ax * bz
    cz = ax * by - ay * bx
    return np.arctan2(np.sqrt(cx * cx + cy * cy + cz * cz), ax * bx + ay * by + az * bz) * S.R2D


def offset(rng, ra0, dec0, dist_deg, n=None):
    """points at the given angular distance(s) from (ra0, dec0) in random directions (float64 result)"""
    ra0 = np.atleast_1d(np.asarray(ra0, dtype="f8"))
    dec0 = np.atleast_1d(np.asarray(dec0, dtype="f8"))
    m = ra0.size if n is None else n
    if n is not None and ra0.size == 1:
        ra0, dec0 = np.repeat(ra0, n), np.repeat(dec0, n)
    c = S.unit(ra0, dec0)
    pole = np.array([0, 0, 1], dtype=LD)[:, None]
    east = np.array([-c[1], c[0], np.zeros_like(c[0])])
    ne = np.sqrt((east ** 2).sum(axis=0))
    alt = np.array([np.ones_like(c[0]), np.zeros_like(c[0]), np.zeros_like(c[0])])
    east = np.where(ne > 1e-12, east / np.where(ne > 1e-12, ne, 1), alt)
    north = np.array([c[1] * east[2] - c[2] * east[1], c[2] * east[0] - c[0] * east[2], c[0] * east[1] - c[1] * east[0]])
    pa = rng.uniform(0, 2 * np.pi, size=m).astype(LD)
    d = np.broadcast_to(np.asarray(dist_deg, dtype="f8"), (m,)).astype(LD) * S.D2R
    v = c * np.cos(d) + (east * np.cos(pa) + north * np.sin(pa)) * np.sin(d)
    lon, lat = S.lonlat(v)
    return np.asarray(lon, dtype="f8") % 360.0, np.clip(np.asarray(lat, dtype="f8"), -90, 90)


def uniform(rng, n):
    return rng.uniform(0, 360, size=n), np.degrees(np.arcsin(rng.uniform(-1, 1, size=n)))


def centre(rng, kind):
    if kind == "northpole":
        return 0.0 if rng.random() < .5 else float(rng.uniform(0, 360)), 90.0
    if kind == "southpole":
        return float(rng.uniform(0, 360)), -90.0
    if kind == "seam":
        return [0.0, 360.0, 359.99999, 1e-7][int(rng.integers(0, 4))], float(rng.uniform(-60, 60))
    if kind == "octant":
        return float(rng.choice([0.0, 90.0, 180.0, 270.0])), float(rng.choice([0.0, 1e-9, -1e-9, 45.0, 35.26438968275466]))
    return float(rng.uniform(0, 360)), float(np.degrees(np.arcsin(rng.uniform(-1, 1))))


def cluster(rng, ra0, dec0, size_deg, n):
    """n points inside a cap of the given angular size, denser towards the centre"""
    d = size_deg * np.sqrt(rng.uniform(0, 1, size=n)) * rng.choice([1.0, 0.3, 0.05], size=n)
    return offset(rng, ra0, dec0, d, n=n)


# --- the published HTM subdivision (Kunszt, Szalay & Thakar 2001): corners of a triangle from its id ---------------
# Used only to *place* test positions (near a chosen triangle's corner); which triangle a position belongs to is
# always asked of the library (lookup_id), and a candidate whose id does not come back as intended is dropped.
_V = [np.array(v, dtype=LD) for v in ((0, 0, 1), (1, 0, 0), (0, 1, 0), (-1, 0, 0), (0, -1, 0), (0, 0, -1))]
_ROOTS = {8: (1, 5, 2), 9: (2, 5, 3), 10: (3, 5, 4), 11: (4, 5, 1), 12: (1, 0, 4), 13: (4, 0, 3), 14: (3, 0, 2), 15: (2, 0, 1)}


def _mid(a, b):
    m = a + b
    return m / np.sqrt((m * m).sum())


def triangle_corners(tid, depth):
    """(3, 3) long-double unit vectors (rows) of the corners of triangle `tid` at `depth`"""
    tid = int(tid)
    digits = []
    for _ in range(depth):
        digits.append(tid & 3)
        tid >>= 2
    a, b, c = (_V[i] for i in _ROOTS[tid])
    for k in reversed(digits):
        w0, w1, w2 = _mid(b, c), _mid(a, c), _mid(a, b)
        a, b, c = [(a, w2, w1), (b, w0, w2), (c, w1, w0), (w0, w1, w2)][k]
    return np.array([a, b, c])
