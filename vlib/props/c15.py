"""C15 Non-in-place calls never modify the arrays passed to them.

Monitor: every array argument is digested (SHA-1 of the element bytes as stored, dtype string / descr, shape,
strides, writeable flag) before and after the call.  Two layers observe:
  * the probe wrappers (vlib/probe.py) on every instrumented esutil entry point, also for nested calls;
  * a driver-level guard around each call shape / object history below (needed for objects that keep references to
    their inputs: Binner, Matcher, Generator).
The workload is a layout matrix: each call shape is run with its array arguments native, byte-swapped, strided,
negatively strided, float32, integer, 0-d, 2-d, read-only, and with every option that selects a different internal
conversion path."""
import io
import os

import numpy as np

from vlib import gen, probe
from vlib.probe import COL
from vlib.props import recshared as rs

ID = "C15"
NATIVE = True
SAN_STRIDE = {"quick": 3, "thorough": 3}
RULE = ("call shapes of the nine families of the statement (record-file writes binary/text through five routes, "
        "field operations, byte-order conversion with inplace off, match/unique/rem_dup, histogram/Binner with "
        "weights, statistics helpers, coordinate and WCS conversions, cosmology distances, HTM lookup/match/"
        "bincount) x argument layouts {native, byte-swapped, strided, negative stride, float32, float32 swapped, "
        "integer, 0-d, 2-d, read-only, swapped+strided} x option variants; signature = (function, layout of the "
        "argument incl. byte order / ndim / contiguity / read-only, option variant)")
TRUSTED = ["hashlib.sha1 over ndarray.tobytes(); numpy dtype.str/descr, shape, strides, flags"]
ASSUMPTIONS = ["calls documented as in-place are white-listed explicitly: inplace=True, copy_fields' destination, "
               "copy_fields_by_name's target, quicksort*, combine_arrlist(keep=False)",
               "a call that raises for an unsupported layout is still judged (its arguments must be unchanged)"]
THOROUGH_ROUNDS = 5      # the thorough tier runs the generator over this many derived seeds
REQUIRED = {"quick": {"C15.snapshot": 25000}, "thorough": {"C15.snapshot": 250000}}
WATCHDOG = {"quick": 900, "thorough": 7200}
CASE_TIMEOUT = 300

FLOAT_LAYOUTS = ["native", "swapped", "strided", "negstride", "f4", "f4-swapped", "int", "0d", "2d", "ro", "swapped-strided", "i4-swapped"]
TABLE_LAYOUTS = ["native", "swapped", "mixed", "strided", "negstride", "ro", "swapped-strided", "2d", "0d"]
FAMILIES = ["recfile", "fields", "byteorder", "match", "hist", "stats", "coords", "wcs", "cosmo", "htm"]


def cases(seed, tier):
    rng = np.random.default_rng([seed, 15])
    reps = 4 if tier == "quick" else 40
    out = []
    for r in range(reps):
        for fam in FAMILIES:
            lays = TABLE_LAYOUTS if fam in ("recfile", "fields") else FLOAT_LAYOUTS
            for lay in lays:
                out.append({"family": fam, "layout": lay, "sub": int(rng.integers(0, 2**31))})
    for i in range(1 if tier == "quick" else 4):
        # (thorough: the first of them has 10^7 + 1 elements, another 2^23 + 1000)
        out.append({"family": "big", "layout": "native", "sub": int(rng.integers(0, 2**31)), "first": i <= 1,
                    "cap": 2 ** 21 + 1 if tier == "quick" else (None if i != 1 else 2 ** 23 + 1000)})
    return out


INSTR = """
esutil.sfile:write esutil.sfile:SFile.write esutil.recfile.Util:Recfile.write esutil.recfile.Util:write esutil.io:write
esutil.numpy_util:extract_fields esutil.numpy_util:remove_fields esutil.numpy_util:add_fields esutil.numpy_util:reorder_fields
esutil.numpy_util:combine_fields esutil.numpy_util:split_fields esutil.numpy_util:copy_fields esutil.numpy_util:copy_fields_by_name
esutil.numpy_util:compare_arrays esutil.numpy_util:to_native esutil.numpy_util:to_big_endian esutil.numpy_util:to_little_endian
esutil.numpy_util:byteswap esutil.numpy_util:is_big_endian esutil.numpy_util:is_little_endian esutil.numpy_util:match
esutil.numpy_util:match_multi esutil.numpy_util:unique esutil.numpy_util:rem_dup esutil.numpy_util:between esutil.numpy_util:outside
esutil.numpy_util:arrscl esutil.numpy_util:splitarray esutil.numpy_util:select_percentile esutil.numpy_util:strmatch
esutil.stat.util:histogram esutil.stat.util:histogram2d esutil.stat.util:Binner.__init__ esutil.stat.util:Binner.dohist
esutil.stat.util:Binner.calc_stats esutil.stat.util:wmom esutil.stat.util:wmedian esutil.stat.util:sigma_clip esutil.stat.util:interplin
esutil.stat.util:get_stats esutil.stat.util:cov2cor esutil.stat.util:cor2cov esutil.stat.util:boxcar_average
esutil.coords:euler esutil.coords:eq2gal esutil.coords:gal2eq esutil.coords:eq2ec esutil.coords:ec2eq esutil.coords:ec2gal
esutil.coords:gal2ec esutil.coords:eq2xyz esutil.coords:xyz2eq esutil.coords:sphdist esutil.coords:gcirc esutil.coords:eq2sdss
esutil.coords:sdss2eq esutil.coords:shiftlon esutil.coords:shiftra esutil.coords:rotate esutil.coords:radec2aitoff
esutil.wcsutil:WCS.image2sky esutil.wcsutil:WCS.sky2image esutil.wcsutil:WCS.get_jacobian
esutil.cosmology.cosmology:Cosmo.Dc esutil.cosmology.cosmology:Cosmo.Dm esutil.cosmology.cosmology:Cosmo.Da
esutil.cosmology.cosmology:Cosmo.Dl esutil.cosmology.cosmology:Cosmo.dV esutil.cosmology.cosmology:Cosmo.distmod
esutil.cosmology.cosmology:Cosmo.sigmacritinv esutil.cosmology.cosmology:Cosmo.Ez_inverse esutil.cosmology.cosmology:Cosmo.Ezinv_integral
esutil.cosmology.cosmology:Cosmo.V
esutil.htm.htm:HTM.lookup_id esutil.htm.htm:HTM.intersect esutil.htm.htm:HTM.match esutil.htm.htm:HTM.bincount
esutil.htm.htm:Matcher.__init__ esutil.htm.htm:Matcher.match esutil.htm.htm:HTM.cylmatch
""".split()


def _inplace_spec(path):
    name = path.split(":")[1]
    if name in ("to_native", "to_big_endian", "to_little_endian", "byteswap"):
        def f(args, kwargs):
            ip = kwargs.get("inplace", args[1] if len(args) > 1 else False)
            return ("arg0", "array") if ip else ()
        return f
    if name == "copy_fields":
        return lambda a, k: ("arg1", "arr2")
    if name == "copy_fields_by_name":
        return lambda a, k: ("arg0", "arr")
    return None


def install():
    rs.instrument_all()
    also = {"esutil.stat.util": ["esutil.stat"], "esutil.htm.htm": ["esutil.htm"], "esutil.cosmology.cosmology": ["esutil.cosmology"]}
    for p in INSTR:
        mod = p.split(":")[0]
        probe.instrument(p, [], inplace=_inplace_spec(p), also=also.get(mod, []) if "." not in p.split(":")[1] else [])


# ---------------------------------------------------------------------------------------------------------------
# layouts

def lay(a, layout):
    """return an array with the same values as `a` (up to the type the layout asks for) in the given memory layout"""
    a = np.asarray(a)
    if layout == "native":
        return a.copy()
    if layout == "swapped":
        return a.astype(a.dtype.newbyteorder(">"))
    if layout == "strided":
        big = np.zeros(a.shape[:-1] + (a.shape[-1] * 2,), dtype=a.dtype) if a.ndim else None
        if big is None:
            return a.copy()
        big[..., ::2] = a
        big[..., 1::2] = -1 if a.dtype.kind in "if" else a
        return big[..., ::2]
    if layout == "negstride":
        if a.ndim == 0:
            return a.copy()
        return np.ascontiguousarray(a[..., ::-1])[..., ::-1]
    if layout == "f4":
        return a.astype("f4") if a.dtype.kind == "f" else a.copy()
    if layout == "f4-swapped":
        return a.astype(">f4") if a.dtype.kind == "f" else a.astype(a.dtype.newbyteorder(">"))
    if layout == "int":
        return np.round(a).astype("i8") if a.dtype.kind == "f" else a.astype("i4") if a.dtype.kind in "iu" else a.copy()
    if layout == "i4-swapped":
        return np.round(a).astype(">i4") if a.dtype.kind in "fiu" else a.copy()
    if layout == "0d":
        return np.array(a.ravel()[0]) if a.size else a.copy()
    if layout == "2d":
        if a.ndim == 1 and a.size >= 2:
            k = a.size // 2
            return a[: 2 * k].reshape(2, k).copy()
        return a.copy()
    if layout == "ro":
        b = a.copy()
        b.flags.writeable = False
        return b
    if layout == "swapped-strided":
        return lay(lay(a, "swapped"), "strided")
    raise ValueError(layout)


def lay_table(t, layout, rng):
    if layout == "native":
        return t.copy()
    if layout in ("swapped", "mixed", "swapped-strided"):
        descr = []
        for i, d in enumerate(t.dtype.descr):
            s = d[1]
            if s[0] in "<>" and (layout != "mixed" or i % 2 == 0):
                s = ">" + s[1:]
            descr.append((d[0], s) + tuple(d[2:]))
        out = np.zeros(t.shape, dtype=descr)
        for n in t.dtype.names:
            out[n] = t[n]
        return lay_table(out, "strided", rng) if layout == "swapped-strided" else out
    if layout == "strided":
        big = np.zeros(t.size * 2, dtype=t.dtype)
        big[::2] = t
        return big[::2]
    if layout == "negstride":
        return np.ascontiguousarray(t[::-1])[::-1]
    if layout == "ro":
        b = t.copy()
        b.flags.writeable = False
        return b
    if layout == "2d":
        k = t.size // 2
        return t[: 2 * k].reshape(2, k).copy() if k else t.copy()
    if layout == "0d":
        return np.array(t[0]) if t.size else t.copy()
    raise ValueError(layout)


# ---------------------------------------------------------------------------------------------------------------
# the guard

def guard(label, arrays, fn, opt="", allowed=()):
    """run fn(); every array in `arrays` (name -> ndarray) must be bit-for-bit unchanged afterwards"""
    before = {k: probe.array_digest(a) for k, a in arrays.items()}
    res, e = probe.attempt(fn)
    I = COL.info
    I.setdefault("calls", {})
    d = I["calls"]
    d[label + ":returned" if e is None else label + ":raised"] = d.get(label + (":returned" if e is None else ":raised"), 0) + 1
    for k, a in arrays.items():
        if k in allowed:
            continue
        after = probe.array_digest(a)
        COL.c15_checked += 1
        ls = probe.layout_sig(a)
        COL.c15_funcs.setdefault(label, set()).add(ls + ("|" + opt if opt else ""))
        changed = [nm for nm, x, y in zip(("bytes", "dtype", "shape", "strides", "writeable"), before[k], after) if x != y]
        if e is not None and not a.flags.writeable and ("read-only" in str(e) or "not writeable" in str(e) or "WRITEABLE" in str(e)):
            # an exception about a read-only array shows that the callee (or numpy on its behalf) tried to write into
            # *some* read-only array; that is not a modification (an empty masked assignment raises too), so it is
            # listed in the evidence and not judged.  A real write shows up on the writable layouts.
            ro = I.setdefault("read_only_write_attempts", [])
            if label not in ro and len(ro) < 100:
                ro.append(label)
        if changed:
            COL._c("C15.snapshot")["violation"] += 1
            COL._f()["violation"] += 1
            COL.c15.append({"func": label, "arg": k, "changed": changed, "layout": ls, "option": opt,
                            "before": list(map(str, before[k])), "after": list(map(str, after)),
                            "raised": "%s: %s" % (type(e).__name__, str(e)[:160]) if e is not None else None, "case": COL.case})
        else:
            COL.ok("C15.snapshot", (label, ls, opt))
    return res, e


def classify_c15(d):
    return None


def san_relevant(r):
    """memory errors (a native write into or read past an argument buffer) bear on this property; UBSan's numeric
    reports (float-to-int casts in the histogram / pair-count code) are C05/C13 business and are only listed"""
    return r["kind"].startswith("asan:")


# ---------------------------------------------------------------------------------------------------------------
# families

def fam_recfile(rng, layout, d, i):
    from esutil import sfile, recfile
    import esutil.io as eio
    for form in ("binary", "text"):
        if form == "binary":
            t0 = rs.bin_table(rng, nrows=int(rng.choice([1, 4, 30])), mixed_order=False)
        else:
            t0 = rs.text_table(rng, nrows=int(rng.choice([1, 4, 30])))
        if layout in ("2d", "0d"):
            continue_2d = True
        t = lay_table(t0, layout, rng)
        for delim in ([None] if form == "binary" else [",", "\t", " "]):
            p = os.path.join(d, "c15_%d.rec" % i)
            opt = "binary" if delim is None else "text%r" % delim
            kw = {} if delim is None else {"delim": delim}
            guard("sfile.write", {"data": t}, lambda: sfile.write(p, t, header={"a": 1}, **kw), opt)
            guard("sfile.write(append)", {"data": t}, lambda: sfile.write(p, t, append=True, **kw), opt)
            # an append the file must refuse - the same fields under names that differ in letter case only: the table
            # (and a copy of it made earlier, which shares the dtype object) must come back untouched whether or not the
            # request is refused
            sw = [n.swapcase() for n in t.dtype.names]
            if sw != list(t.dtype.names) and len(set(sw)) == len(sw) and t.ndim == 1:
                tc = np.zeros(t.shape, dtype=[(m,) + tuple(dd[1:]) for m, dd in zip(sw, t.dtype.descr)])
                for m, n0 in zip(sw, t.dtype.names):
                    tc[m] = t[n0]
                tc_before = tc.copy()
                guard("sfile.write(append)", {"data": tc, "copy-made-before": tc_before}, lambda: sfile.write(p, tc, append=True, **kw), opt + ",names-differ-in-case")

            def f_sf():
                with sfile.SFile(p, "w", **kw) as sf:
                    sf.write(t)
                    sf.write(t)
            guard("SFile.write", {"data": t}, f_sf, opt)

            def f_rf():
                with recfile.Recfile(p, "w", **kw) as rf:
                    rf.write(t)
                    rf.write(t)
            guard("Recfile.write", {"data": t}, f_rf, opt)
            guard("recfile.write", {"data": t}, lambda: recfile.write(p, t, **kw), opt)
            guard("io.write", {"data": t}, lambda: eio.write(p, t, **kw), opt)
            if delim is not None:
                # a table the text writer rejects part-way (bool / complex columns): the call raises, the argument must
                # still be untouched
                tb0 = rs.bin_table(rng, nrows=int(rng.choice([1, 3, 12])), mixed_order=False)
                tb = lay_table(tb0, layout, rng)
                guard("sfile.write(rejected types)", {"data": tb}, lambda: sfile.write(p, tb, **kw), opt)
                guard("Recfile.write(rejected types)", {"data": tb}, lambda: _rfw(p, tb, **kw), opt)
                guard("io.write(rejected types)", {"data": tb}, lambda: eio.write(p, tb, **kw), opt)
                guard("sfile.write(padnull)", {"data": t}, lambda: sfile.write(p, t, padnull=True, **kw), opt)
                guard("Recfile.write(bracket_arrays)", {"data": t}, lambda: _rfw(p, t, bracket_arrays=True, **kw), opt)
            # reading with row / column selections given as arrays
            try:
                sfile.write(p, t0.copy(), **kw)
                rows = lay(np.arange(t0.size)[:: 2], layout if layout in FLOAT_LAYOUTS else "native")
                cols = np.array(list(t0.dtype.names)[:2])
                guard("sfile.read(rows,columns)", {"rows": rows, "columns": cols}, lambda: sfile.read(p, rows=rows, columns=cols), opt)
            except Exception:
                pass
            try:
                os.unlink(p)
            except OSError:
                pass


def _rfw(p, t, **kw):
    from esutil import recfile
    with recfile.Recfile(p, "w", **kw) as rf:
        rf.write(t)


def fam_fields(rng, layout, d, i):
    from esutil import numpy_util as nu
    t0 = gen.rand_table(rng, int(rng.choice([1, 5, 20])), nfields=int(rng.integers(2, 6)), kinds=gen.INTS + gen.FLOATS + ["S", "U"],
                        byteorders=("<",), names=["a", "b", "c", "d", "e", "f"], raw=False)
    t = lay_table(t0, layout, rng)
    names = list(t.dtype.names)
    keep = names[::2]
    guard("extract_fields", {"arr": t}, lambda: nu.extract_fields(t, keep), "list")
    guard("extract_fields", {"arr": t}, lambda: nu.extract_fields(t, names[0]), "scalar")
    guard("remove_fields", {"arr": t}, lambda: nu.remove_fields(t, names[-1:]))
    dflt = lay(np.arange(3.0), layout if layout in ("native", "swapped", "strided", "ro", "negstride") else "native")
    guard("add_fields", {"arr": t, "default": dflt}, lambda: nu.add_fields(t, [("new1", "f8"), ("new2", "i4", 3)], defaults=[1.5, dflt]), "descr+defaults")
    guard("add_fields", {"arr": t}, lambda: nu.add_fields(t, np.dtype([("new1", ">f4")])), "dtype")
    guard("reorder_fields", {"arr": t}, lambda: nu.reorder_fields(t, names[::-1][:2]))
    other = np.zeros(t.shape, dtype=[("zz", ">i4"), ("yy", "S3")])
    other = lay_table(other, layout if layout in ("strided", "ro", "negstride") else "native", rng) if other.ndim == 1 else other
    guard("combine_fields", {"a": t, "b": other}, lambda: nu.combine_fields([t, other]))
    guard("split_fields", {"arr": t}, lambda: nu.split_fields(t))
    guard("split_fields", {"arr": t}, lambda: nu.split_fields(t, fields=keep, getnames=True), "fields")
    dst = np.zeros(t.shape, dtype=t0.dtype.newbyteorder("=") if False else t0.dtype)
    guard("copy_fields", {"src": t, "dst": dst}, lambda: nu.copy_fields(t, dst), allowed=("dst",))
    guard("compare_arrays", {"a": t, "b": dst}, lambda: nu.compare_arrays(t, dst, verbose=False))
    vals = lay(np.arange(t.size, dtype="f8").reshape(t.shape) if t.ndim else np.array(1.0), "native")
    tgt = t0.copy()
    num = [n for n in names if t0.dtype[n].kind in "iuf" and t0.dtype[n].shape == ()]
    if num and t.ndim == 1:
        v2 = lay(np.arange(tgt.size, dtype="f8"), layout if layout in FLOAT_LAYOUTS else "native")
        if v2.shape == tgt.shape:
            guard("copy_fields_by_name", {"vals": v2}, lambda: nu.copy_fields_by_name(tgt, [num[0]], [v2]))
    guard("numpy_util.ahelp", {"arr": t}, lambda: _quiet(nu.ahelp, t))
    guard("numpy_util.aprint", {"arr": t}, lambda: nu.aprint(t, file=io.StringIO()) if False else _quiet(nu.aprint, t))
    guard("arr2str", {"arr": t}, lambda: nu.arr2str(t[names[0]]))


def _quiet(fn, *a, **k):
    import contextlib
    buf = io.StringIO()
    with contextlib.redirect_stdout(buf), contextlib.redirect_stderr(buf):
        return fn(*a, **k)


def fam_byteorder(rng, layout, d, i):
    from esutil import numpy_util as nu
    plain0 = rng.normal(size=int(rng.choice([1, 6, 40]))) * 100
    for base in (plain0, np.round(plain0).astype("i4"), np.round(plain0).astype("u2"), np.array(["ab", "c"] * 3, dtype="U3"),
                 plain0.astype("c16")):
        a = lay(base, layout) if base.dtype.kind in "fiu" else lay(base, layout if layout in ("native", "swapped", "strided", "ro", "negstride", "0d", "2d") else "native")
        for fn in ("to_native", "to_big_endian", "to_little_endian", "byteswap"):
            for keep in (False, True):
                guard(fn, {"array": a}, lambda: getattr(nu, fn)(a, inplace=False, keep_dtype=keep), "keep_dtype" if keep else "")
            guard(fn + "(default)", {"array": a}, lambda: getattr(nu, fn)(a))
        guard("is_big_endian", {"array": a}, lambda: nu.is_big_endian(a))
        guard("is_little_endian", {"array": a}, lambda: nu.is_little_endian(a))
    t0 = gen.rand_table(rng, 6, nfields=4, kinds=gen.INTS + gen.FLOATS + ["S"], byteorders=("<",), names=["a", "b", "c", "d"], raw=False)
    for tl in ("native", "swapped", "mixed", "strided", "ro", "negstride", "2d", "0d"):
        t = lay_table(t0, tl, rng)
        for fn in ("to_native", "to_big_endian", "to_little_endian", "byteswap"):
            for keep in (False, True):
                guard(fn, {"array": t}, lambda: getattr(nu, fn)(t, inplace=False, keep_dtype=keep), "table" + ("+keep_dtype" if keep else ""))


def fam_match(rng, layout, d, i):
    from esutil import numpy_util as nu
    n1, n2 = int(rng.choice([1, 5, 60])), int(rng.choice([1, 8, 90]))
    for kind in ("i8", "f8", "S", "u2"):
        if kind == "S":
            a1 = np.array(["s%03d" % k for k in rng.permutation(200)[:n1]], dtype="S5")
            a2 = np.array(["s%03d" % k for k in rng.integers(0, 200, size=n2)], dtype="S5")
            L = layout if layout in ("native", "strided", "ro", "negstride", "0d", "2d") else "native"
        else:
            a1 = rng.permutation(300)[:n1].astype(kind)
            a2 = rng.integers(0, 300, size=n2).astype(kind)
            L = layout
            if kind != "f8" and layout in ("f4", "f4-swapped", "int"):
                L = "native"
        x1, x2 = lay(a1, L), lay(a2, L)
        guard("match", {"arr1": x1, "arr2": x2}, lambda: nu.match(x1, x2), kind)
        s1 = lay(np.sort(a1), L)
        guard("match", {"arr1": s1, "arr2": x2}, lambda: nu.match(s1, x2, presorted=True), kind + "+presorted")
        guard("match_multi", {"arr1": x1, "arr2": x2}, lambda: nu.match_multi(x1, x2), kind)
        guard("unique", {"arr": x2}, lambda: nu.unique(x2), kind)
        guard("unique", {"arr": x2}, lambda: nu.unique(x2, values=True), kind + "+values")
        fl = lay(rng.integers(0, 5, size=a2.shape).astype("i4"), L if L in ("native", "swapped", "strided", "ro", "negstride", "0d", "2d") else "native")
        guard("rem_dup", {"arr": x2, "flag": fl}, lambda: nu.rem_dup(x2, fl), kind)
        if kind != "S":
            guard("between", {"arr": x2}, lambda: nu.between(x2, 10, 100), kind)
            guard("outside", {"arr": x2}, lambda: nu.outside(x2, 10, 100), kind)
            guard("arrscl", {"arr": x2}, lambda: nu.arrscl(x2, 0.0, 1.0), kind)
            guard("select_percentile", {"x": x2}, lambda: nu.select_percentile(x2, 0.5), kind)
            guard("splitarray", {"arr": x2}, lambda: nu.splitarray(3, x2), kind)
        else:
            u2 = lay(a2.astype("U5"), L)
            guard("strmatch", {"arr": u2}, lambda: nu.strmatch(u2, ".*1$"), "U")


def fam_hist(rng, layout, d, i):
    from esutil import stat
    n = int(rng.choice([1, 7, 200], p=[.2, .3, .5]))
    x0 = rng.normal(size=n) * 3 + 10
    y0 = rng.normal(size=n)
    w0 = rng.uniform(0.1, 2, size=n)
    x, y, w = lay(x0, layout), lay(y0, layout), lay(w0, layout)
    for opt, kw in (("binsize", dict(binsize=0.5)), ("nbin", dict(nbin=7)), ("binsize+rev", dict(binsize=0.5, rev=True)),
                    ("more", dict(binsize=1.0, more=True)), ("minmax", dict(binsize=0.25, min=8.0, max=12.0, rev=True)),
                    ("nperbin", dict(nperbin=3, more=True)), ("nperbin+rev", dict(nperbin=3, rev=True, mergelast=False))):
        guard("histogram", {"data": x}, lambda: stat.histogram(x, **kw), opt)
        guard("histogram(weights)", {"data": x, "weights": w}, lambda: stat.histogram(x, weights=w, **kw), opt)
    import esutil.stat.util as su
    for eng in (True, False):
        old = su.have_chist
        su.have_chist = eng and old
        try:
            guard("histogram", {"data": x}, lambda: stat.histogram(x, binsize=0.5, rev=True), "engine=" + ("c" if eng else "py"))

            def f_b():
                b = stat.Binner(x, y, weights=w)
                b.dohist(binsize=0.7, rev=True)
                b.calc_stats()
                b2 = stat.Binner(x, y)
                b2.dohist(nperbin=4)
                b2.calc_stats()
                b3 = stat.Binner(x, weights=w)
                b3.dohist(nbin=5, min=float(x0.min()), max=float(x0.max()) + 1)
                b3.calc_stats()
                return b
            guard("Binner(x,y,weights).dohist.calc_stats", {"x": x, "y": y, "weights": w}, f_b, "engine=" + ("c" if eng else "py"))
        finally:
            su.have_chist = old
    guard("histogram2d", {"x": x, "y": y}, lambda: stat.histogram2d(x, y, nx=4, ny=3), "nxny")
    guard("histogram2d", {"x": x, "y": y}, lambda: stat.histogram2d(x, y, nx=4, ny=3, rev=True, more=True), "rev+more")
    guard("boxcar_average", {"x": x}, lambda: stat.boxcar_average(x, 3))


def fam_stats(rng, layout, d, i):
    from esutil import stat
    n = int(rng.choice([2, 9, 300]))
    x0 = rng.normal(size=n) * 2 + 5
    x0[rng.integers(0, n)] = 60.0
    w0 = rng.uniform(0.1, 2, size=n)
    x, w = lay(x0, layout), lay(w0, layout)
    for opt, kw in (("plain", {}), ("calcerr", dict(calcerr=True)), ("sdev", dict(sdev=True)), ("calcerr+sdev", dict(calcerr=True, sdev=True)),
                    ("inputmean", dict(inputmean=5.0, sdev=True))):
        guard("wmom", {"arr": x, "weights": w}, lambda: stat.wmom(x, w, **kw), opt)
    # the "masked entry" convention: non-finite data at positions whose weight is exactly zero
    xm0, wm0 = x0.copy(), w0.copy()
    km = rng.integers(0, n, size=max(1, n // 4))
    wm0[km] = 0.0
    xm0[km] = rng.choice([np.nan, np.inf, -np.inf], size=km.size)
    Lm = layout if layout not in ("int", "i4-swapped") else "native"
    xm, wm = lay(xm0, Lm), lay(wm0, Lm)
    with np.errstate(all="ignore"):
        for opt, kw in (("plain", {}), ("calcerr+sdev", dict(calcerr=True, sdev=True)), ("inputmean", dict(inputmean=5.0, sdev=True))):
            guard("wmom", {"arr": xm, "weights": wm}, lambda: stat.wmom(xm, wm, **kw), opt + ",masked-nonfinite")
        guard("wmedian", {"arr": xm, "weights": wm}, lambda: stat.wmedian(xm, wm), "masked-nonfinite")
        guard("sigma_clip", {"arr": xm, "weights": wm}, lambda: stat.sigma_clip(xm, weights=wm, silent=True), "masked-nonfinite")
        guard("get_stats", {"arr": xm, "weights": wm}, lambda: stat.get_stats(xm, weights=wm), "masked-nonfinite")
    xn0 = rng.normal(size=(n, 3))
    xn = lay(xn0, layout if layout in ("native", "swapped", "f4", "f4-swapped", "ro", "int", "i4-swapped") else "native")
    wn = lay(np.abs(xn0) + .1, layout if layout in ("native", "swapped", "f4", "ro") else "native")
    im = lay(np.zeros(3), layout if layout in ("native", "swapped", "f4", "ro", "strided") else "native")
    guard("wmom", {"arr": xn, "weights": w}, lambda: stat.wmom(xn, w, calcerr=True, sdev=True), "Nxd,1-d weights")
    guard("wmom", {"arr": xn, "weights": wn, "inputmean": im}, lambda: stat.wmom(xn, wn, inputmean=im, sdev=True), "Nxd,Nxd weights,array mean")
    guard("wmedian", {"arr": x, "weights": w}, lambda: stat.wmedian(x, w))
    for opt, kw in (("plain", {}), ("weights", dict(weights=w)), ("indices", dict(get_indices=True, get_err=True)), ("niter0", dict(niter=0, nsig=2.0))):
        guard("sigma_clip", {"arr": x, **({"weights": w} if "weights" in kw else {})}, lambda: stat.sigma_clip(x, silent=True, **kw), opt)
    xt = lay(np.sort(rng.uniform(0, 10, size=max(n, 3))), layout)
    vt = lay(rng.normal(size=max(n, 3)), layout)
    u = lay(rng.uniform(-2, 12, size=7), layout)
    guard("interplin", {"v": vt, "x": xt, "u": u}, lambda: stat.interplin(vt, xt, u))
    guard("get_stats", {"arr": x}, lambda: stat.get_stats(x), "plain")
    guard("get_stats", {"arr": x, "weights": w}, lambda: stat.get_stats(x, weights=w), "weights")
    guard("get_stats", {"arr": x}, lambda: stat.get_stats(x, nsig=3, niter=2), "clip")
    A = rng.normal(size=(4, 4))
    C0 = A @ A.T + np.eye(4)
    C = lay(C0, layout if layout in ("native", "swapped", "f4", "f4-swapped", "ro") else "native")
    guard("cov2cor", {"cov": C}, lambda: stat.cov2cor(C))
    cor = stat.cov2cor(C0.copy())
    cr = lay(cor, layout if layout in ("native", "swapped", "f4", "ro") else "native")
    de = lay(np.sqrt(np.diag(C0)), layout if layout in ("native", "swapped", "f4", "ro", "strided", "negstride") else "native")
    guard("cor2cov", {"cor": cr, "diagerr": de}, lambda: stat.cor2cov(cr, de))
    guard("print_stats", {"arr": x}, lambda: _quiet(stat.print_stats, x))


def sky(rng, n, layout):
    ra0, dec0 = gen.sphere(rng, n)
    # longitudes outside the principal range are legitimate inputs and are what a wrap-in-place would rewrite
    k = rng.integers(0, 4, size=n)
    ra0 = np.where(k == 0, ra0 - 360.0, np.where(k == 1, ra0 + 360.0, ra0))
    if n > 2:
        ra0[0], ra0[1] = 360.0, -0.0
    return lay(ra0, layout), lay(dec0, layout)


def fam_coords(rng, layout, d, i):
    from esutil import coords
    n = int(rng.choice([1, 4, 50]))
    ra, dec = sky(rng, n, layout)
    ra2, dec2 = sky(rng, n, layout)
    for fn in ("eq2gal", "gal2eq", "eq2ec", "ec2eq", "ec2gal", "gal2ec"):
        for opt, kw in (("", {}), ("b1950", dict(b1950=True)), ("f4", dict(dtype="f4"))):
            guard(fn, {"lon": ra, "lat": dec}, lambda: getattr(coords, fn)(ra, dec, **kw), opt)
    for sel in (1, 4):
        guard("euler", {"ai": ra, "bi": dec}, lambda: coords.euler(ra, dec, sel), "select=%d" % sel)
    rar, decr = lay(np.radians(np.asarray(ra, dtype="f8")), "native"), lay(np.radians(np.asarray(dec, dtype="f8")), "native")
    if layout not in ("int", "i4-swapped"):
        rar, decr = lay(rar, layout), lay(decr, layout)
    for units in ("deg", "rad"):
        for stomp in (False, True):
            for dt in ("f8", "f4"):
                a, b = (ra, dec) if units == "deg" else (rar, decr)
                guard("eq2xyz", {"ra": a, "dec": b}, lambda: coords.eq2xyz(a, b, dtype=dt, units=units, stomp=stomp), "%s,stomp=%s,%s" % (units, stomp, dt))
    x0, y0, z0 = coords.eq2xyz(np.asarray(ra, dtype="f8").copy(), np.asarray(dec, dtype="f8").copy())
    L = layout if layout not in ("int", "i4-swapped") else "native"
    x, y, z = lay(x0, L), lay(y0, L), lay(z0, L)
    for units in ("deg", "rad"):
        for stomp in (False, True):
            guard("xyz2eq", {"x": x, "y": y, "z": z}, lambda: coords.xyz2eq(x, y, z, units=units, stomp=stomp), "%s,stomp=%s" % (units, stomp))
    for u in (["deg", "deg"], ["rad", "deg"], ["deg", "rad"], ["rad", "rad"]):
        a1, b1 = (ra, dec) if u[0] == "deg" else (rar, decr)
        guard("sphdist", {"ra1": a1, "dec1": b1, "ra2": ra2, "dec2": dec2}, lambda: coords.sphdist(a1, b1, ra2, dec2, units=u), "%s->%s" % tuple(u))
    guard("sphdist", {"ra2": ra2, "dec2": dec2}, lambda: coords.sphdist(10.0, 20.0, ra2, dec2), "scalar-vs-array")
    guard("sphdist", {"ra1": ra, "dec1": dec}, lambda: coords.sphdist(ra, dec, ra, dec), "same arrays twice")
    for ga in (False, True):
        guard("gcirc", {"ra1": ra, "dec1": dec, "ra2": ra2, "dec2": dec2}, lambda: coords.gcirc(ra, dec, ra2, dec2, getangle=ga), "getangle=%s" % ga)
    for dt in ("f8", "f4"):
        guard("eq2sdss", {"ra": ra, "dec": dec}, lambda: coords.eq2sdss(ra, dec, dtype=dt), dt)
        cl, ce = lay(np.asarray(dec, dtype="f8") * 0.9, L), lay(np.asarray(ra, dtype="f8") / 2 - 60, L)
        guard("sdss2eq", {"clambda": cl, "ceta": ce}, lambda: coords.sdss2eq(cl, ce, dtype=dt), dt)
    for opt, kw in (("default", {}), ("shift=90", dict(shift=90.0)), ("shift=-400,nowrap", dict(shift=-400.0, wrap=False)), ("wrap=False", dict(wrap=False))):
        guard("shiftlon", {"lon": ra}, lambda: coords.shiftlon(ra, **kw), opt)
        guard("shiftra", {"ra": ra}, lambda: coords.shiftra(ra, **kw), opt)
    guard("rotate", {"ra": ra, "dec": dec}, lambda: coords.rotate(30.0, 40.0, 50.0, ra, dec))
    guard("radec2aitoff", {"ra": ra, "dec": dec}, lambda: coords.radec2aitoff(ra, dec))


def wcs_header(rng, kind):
    th = rng.uniform(0, 2 * np.pi)
    s = rng.uniform(0.1, 1.0) / 3600.0
    h = {"ctype1": "RA---TAN", "ctype2": "DEC--TAN", "crpix1": 1024.5, "crpix2": 1024.5, "crval1": float(rng.uniform(0, 360)),
         "crval2": float(rng.uniform(-80, 80)), "cunit1": "deg", "cunit2": "deg", "naxis1": 2048, "naxis2": 2048,
         "cd1_1": -s * np.cos(th), "cd1_2": s * np.sin(th), "cd2_1": s * np.sin(th), "cd2_2": s * np.cos(th)}
    if kind == "tpv":
        h["ctype1"], h["ctype2"] = "RA---TPV", "DEC--TPV"
        for ax in (1, 2):
            h["pv%d_0" % ax] = 1e-5
            h["pv%d_1" % ax] = 1.0
            h["pv%d_2" % ax] = 1e-4
            h["pv%d_4" % ax] = 2e-3
            h["pv%d_5" % ax] = -1e-3
            h["pv%d_6" % ax] = 1.5e-3
    elif kind == "sip":
        h["ctype1"], h["ctype2"] = "RA---TAN-SIP", "DEC--TAN-SIP"
        h.update({"a_order": 2, "b_order": 2, "a_2_0": 1e-7, "a_1_1": -2e-7, "a_0_2": 5e-8, "b_2_0": 3e-8, "b_1_1": 1e-7, "b_0_2": -1e-7,
                  "ap_order": 2, "bp_order": 2, "ap_2_0": -1e-7, "ap_1_1": 2e-7, "ap_0_2": -5e-8, "bp_2_0": -3e-8, "bp_1_1": -1e-7, "bp_0_2": 1e-7})
    return h


def fam_wcs(rng, layout, d, i):
    from esutil import wcsutil
    n = int(rng.choice([1, 3, 20]))
    for kind in ("tan", "tpv", "sip"):
        w, e = probe.attempt(wcsutil.WCS, wcs_header(rng, kind))
        if e is not None:
            continue
        x0, y0 = rng.uniform(1, 2048, size=n), rng.uniform(1, 2048, size=n)
        x, y = lay(x0, layout), lay(y0, layout)
        for dist in (True, False):
            guard("WCS.image2sky", {"x": x, "y": y}, lambda: w.image2sky(x, y, distort=dist), "%s,distort=%s" % (kind, dist))
        lon0, lat0 = w.image2sky(x0.copy(), y0.copy())
        L = layout if layout not in ("int", "i4-swapped") else "native"
        lon, lat = lay(np.atleast_1d(lon0), L), lay(np.atleast_1d(lat0), L)
        for dist in (True, False):
            for find in (True, False):
                guard("WCS.sky2image", {"lon": lon, "lat": lat}, lambda: w.sky2image(lon, lat, distort=dist, find=find), "%s,distort=%s,find=%s" % (kind, dist, find))
        guard("WCS.get_jacobian", {"x": x, "y": y}, lambda: w.get_jacobian(x, y), kind)
        # the lower-level public steps of the same conversions
        guard("WCS.image2sph", {"x": x, "y": y}, lambda: w.image2sph(x, y), kind)
        guard("WCS.ApplyCDMatrix", {"x": x, "y": y}, lambda: w.ApplyCDMatrix(x, y), kind)
        guard("WCS.ApplyCDMatrix", {"x": x, "y": y}, lambda: w.ApplyCDMatrix(x, y, inverse=True), kind + ",inverse")
        for inv in (False, True):
            guard("WCS.Distort", {"x": x, "y": y}, lambda: w.Distort(x, y, inverse=inv), "%s,inverse=%s" % (kind, inv))
        guard("WCS.sph2image", {"lon": lon, "lat": lat}, lambda: w.sph2image(lon, lat), kind)
        for rev in (False, True):
            guard("WCS.Rotate", {"lon": lon, "lat": lat}, lambda: w.Rotate(lon, lat, reverse=rev), "%s,reverse=%s" % (kind, rev))
    # differences of longitudes outside [-180, 180] (what the function exists to wrap), some non-finite
    d0 = rng.uniform(-900, 900, size=n)
    if n > 2:
        d0[0], d0[1] = (np.nan if layout not in ("int", "i4-swapped") else -540.0), 180.0     # (nan -> INT_MIN never wraps)
    dra = lay(d0, layout)
    guard("wrap_ra_diff", {"dra": dra}, lambda: wcsutil.wrap_ra_diff(dra))
    d00 = lay(d0[-1:], layout if layout in ("native", "swapped", "f4", "f4-swapped", "int", "i4-swapped") else "native").reshape(())
    guard("wrap_ra_diff", {"dra": d00}, lambda: wcsutil.wrap_ra_diff(d00), "0-d")
    pa = lay(rng.normal(size=(3, 3)), layout if layout in ("native", "swapped", "f4", "ro") else "native")
    px, py = lay(rng.uniform(-1, 1, size=n), layout), lay(rng.uniform(-1, 1, size=n), layout)
    guard("Apply2DPolynomial", {"a": pa, "x": px, "y": py}, lambda: wcsutil.Apply2DPolynomial(pa, px, py))
    hdr_arr = np.zeros(1, dtype=[(k, "f8") if not isinstance(v, str) else (k, "U12") for k, v in wcs_header(rng, "tan").items()])
    for k, v in wcs_header(rng, "tan").items():
        hdr_arr[k] = v
    guard("WCS(structured-array header)", {"wcs": hdr_arr}, lambda: wcsutil.WCS(hdr_arr).image2sky(10.0, 10.0))


def fam_cosmo(rng, layout, d, i):
    from esutil import cosmology
    n = int(rng.choice([1, 5, 40]))
    cs = [cosmology.Cosmo(), cosmology.Cosmo(omega_m=0.3, omega_k=0.1, flat=False, omega_l=0.6), cosmology.Cosmo(h=0.7, omega_m=0.25)]
    c = cs[int(rng.integers(0, 3))]
    L = layout if layout not in ("int", "i4-swapped") else layout
    z10, z20 = np.sort(rng.uniform(0.01, 1.0, size=n)), np.sort(rng.uniform(1.0, 3.0, size=n))
    if layout in ("int", "i4-swapped"):
        z10, z20 = np.zeros(n), np.arange(1, n + 1, dtype="f8") % 4 + 1
    else:
        # values a routine might be tempted to tidy up in place: a photometric redshift just below zero, an exact zero,
        # a missing value
        r = rng.random()
        if r < .4:
            z10[0] = -10.0 ** rng.uniform(-6, -2)
        elif r < .5:
            z10[0] = 0.0
        if rng.random() < .15:
            z20[-1] = np.nan
    z1, z2 = lay(z10, L), lay(z20, L)
    for fn in ("Dc", "Dm", "Da", "Dl", "sigmacritinv"):
        f = getattr(c, fn)
        guard("Cosmo." + fn, {"zmin": z1, "zmax": z2}, lambda: f(z1, z2), "array,array")
        guard("Cosmo." + fn, {"zmax": z2}, lambda: f(0.1, z2), "scalar,array")
        guard("Cosmo." + fn, {"zmin": z1}, lambda: f(z1, 3.5), "array,scalar")
    for fn in ("dV", "distmod", "Ez_inverse"):
        f = getattr(c, fn)
        guard("Cosmo." + fn, {"z": z2}, lambda: f(z2), "array")
    # scalar-only methods: 0-d arrays in the requested dtype / byte order
    za, zb = lay(z10[:1], L).reshape(()), lay(z20[:1], L).reshape(())
    guard("Cosmo.V", {"zmin": za, "zmax": zb}, lambda: c.V(za, zb), "0-d,0-d")
    guard("Cosmo.Ezinv_integral", {"zmin": za, "zmax": zb}, lambda: c.Ezinv_integral(za, zb), "0-d,0-d")


def fam_htm(rng, layout, d, i):
    from esutil import htm
    n1, n2 = int(rng.choice([1, 6, 40])), int(rng.choice([1, 9, 80]))
    c_ra, c_dec = float(rng.uniform(0, 360)), float(rng.uniform(-80, 80))
    ra10, dec10 = c_ra + rng.uniform(-.5, .5, size=n1), c_dec + rng.uniform(-.5, .5, size=n1)
    ra20, dec20 = c_ra + rng.uniform(-.5, .5, size=n2), c_dec + rng.uniform(-.5, .5, size=n2)
    ra10, ra20 = ra10 % 360, ra20 % 360
    ra10[::3] -= 360.0          # the same directions written outside the principal range
    ra20[1::3] += 360.0
    if layout == "2d":
        # the HTM entry points take 1-d coordinate lists; the C layer indexes a 2-d array along its first axis only
        # (out-of-bounds reads, a segmentation fault was observed in bincount) - outside every statement, see DESIGN 7
        layout = "negstride"
    ra1, dec1, ra2, dec2 = lay(ra10, layout), lay(dec10, layout), lay(ra20, layout), lay(dec20, layout)
    depth = int(rng.choice([4, 7, 9]))
    h = htm.HTM(depth)
    guard("HTM.lookup_id", {"ra": ra1, "dec": dec1}, lambda: h.lookup_id(ra1, dec1), "depth=%d" % depth)
    guard("HTM.intersect", {}, lambda: h.intersect(c_ra, c_dec, 0.1), "scalar")
    rad0 = rng.uniform(0.01, 0.2, size=np.asarray(ra1).size)
    rad = lay(rad0, layout if layout not in ("int", "i4-swapped", "2d", "0d") else "native")
    for opt, kw in (("maxmatch=1", dict(maxmatch=1)), ("maxmatch=0", dict(maxmatch=0)), ("maxmatch=2", dict(maxmatch=2))):
        guard("HTM.match", {"ra1": ra1, "dec1": dec1, "ra2": ra2, "dec2": dec2}, lambda: h.match(ra1, dec1, ra2, dec2, 0.1, **kw), "scalar radius," + opt)
        guard("HTM.match", {"ra1": ra1, "dec1": dec1, "ra2": ra2, "dec2": dec2, "radius": rad}, lambda: h.match(ra1, dec1, ra2, dec2, rad, **kw), "array radius," + opt)
    p = os.path.join(d, "c15_htm_%d.bin" % i)
    guard("HTM.match(file=)", {"ra1": ra1, "dec1": dec1, "ra2": ra2, "dec2": dec2}, lambda: h.match(ra1, dec1, ra2, dec2, 0.1, maxmatch=0, file=p), "file")
    try:
        os.unlink(p)
    except OSError:
        pass
    # precomputed ids / reverse indices must describe the coordinates actually passed (the integer layouts round them)
    ids0 = h.lookup_id(np.asarray(ra2, dtype="f8").ravel().copy(), np.asarray(dec2, dtype="f8").ravel().copy())
    try:
        from esutil import stat
        hist, rev0 = stat.histogram(ids0 - ids0.min(), rev=True)
        ids = lay(ids0, layout if layout in ("native", "strided", "ro", "negstride", "swapped") else "native")
        rev = lay(rev0, layout if layout in ("native", "strided", "ro", "negstride", "swapped") else "native")
        sc = lay(rng.uniform(0.5, 2.0, size=np.asarray(ra1).size), layout if layout not in ("int", "i4-swapped", "2d", "0d") else "native")
        for opt, kw in (("scale=None", {}), ("scale=scalar", dict(scale=1.5)), ("scale=array", dict(scale=sc)),
                        ("precomputed-rev", dict(htmrev2=rev, minid=int(ids0.min()), maxid=int(ids0.max()))), ("precomputed-ids", dict(htmid2=ids))):
            arrs = {"ra1": ra1, "dec1": dec1, "ra2": ra2, "dec2": dec2}
            if "scale" in kw and isinstance(kw["scale"], np.ndarray):
                arrs["scale"] = sc
            if "htmrev2" in kw:
                arrs["htmrev2"] = rev
            if "htmid2" in kw:
                arrs["htmid2"] = ids
            guard("HTM.bincount", arrs, lambda: h.bincount(0.005, 0.3, 4, ra1, dec1, ra2, dec2, **kw), opt)
    except Exception as e:       # helper failure is not a verdict
        COL.info["htm_helper_errors"] = COL.info.get("htm_helper_errors", 0) + 1

    def f_m():
        m = htm.Matcher(depth, ra2, dec2)
        r1 = m.match(ra1, dec1, 0.1, maxmatch=0)
        r2 = m.match(ra1, dec1, rad, maxmatch=1)
        return r1, r2
    guard("Matcher(ra,dec).match", {"ra": ra2, "dec": dec2, "ra1": ra1, "dec1": dec1, "radius": rad}, f_m)
    guard("HTM.cylmatch", {"ra1": ra1, "dec1": dec1, "ra2": ra2, "dec2": dec2},
          lambda: h.cylmatch(ra1, dec1, np.full(np.asarray(ra1).size, 0.1), ra2, dec2, np.full(np.asarray(ra2).size, 0.1), 0.1, 0.05))


def fam_big(rng, layout, d, i, case=None):
    """native float64 arrays of one to ten million elements (the layout a size-gated 'no need to copy' path is written
    for): the arguments must come back untouched"""
    from esutil import coords, stat, htm, cosmology
    n = gen.big_size(rng, cap=(case or {}).get("cap"), first=(case or {}).get("first", False))
    ra, dec = rng.uniform(0, 360, size=n), np.degrees(np.arcsin(rng.uniform(-1, 1, size=n)))
    ra2, dec2 = (ra + 1.0) % 360.0, np.clip(dec * 0.5, -90, 90)
    opt = "n=2^%d" % int(np.log2(n))
    guard("eq2sdss", {"ra": ra, "dec": dec}, lambda: coords.eq2sdss(ra, dec), opt)
    lam, eta = coords.eq2sdss(ra.copy(), dec.copy())
    guard("sdss2eq", {"clambda": lam, "ceta": eta}, lambda: coords.sdss2eq(lam, eta), opt)
    guard("eq2gal", {"ra": ra, "dec": dec}, lambda: coords.eq2gal(ra, dec), opt)
    guard("eq2xyz", {"ra": ra, "dec": dec}, lambda: coords.eq2xyz(ra, dec), opt)
    guard("sphdist", {"ra1": ra, "dec1": dec, "ra2": ra2, "dec2": dec2}, lambda: coords.sphdist(ra, dec, ra2, dec2), opt)
    guard("gcirc", {"ra1": ra, "dec1": dec, "ra2": ra2, "dec2": dec2}, lambda: coords.gcirc(ra, dec, ra2, dec2), opt)
    guard("shiftlon", {"lon": ra}, lambda: coords.shiftlon(ra, shift=33.0), opt)
    w = rng.uniform(0.1, 2, size=n)
    guard("histogram", {"data": dec, "weights": w}, lambda: stat.histogram(dec, binsize=5.0, weights=w), opt)
    guard("wmom", {"arr": dec, "weights": w}, lambda: stat.wmom(dec, w, sdev=True), opt)
    guard("HTM.lookup_id", {"ra": ra, "dec": dec}, lambda: htm.HTM(8).lookup_id(ra, dec), opt)
    z = np.abs(dec) / 30.0 + 0.01
    guard("Cosmo.Da", {"zmax": z}, lambda: cosmology.Cosmo().Da(0.005, z), opt)


FAM = {"big": fam_big, "recfile": fam_recfile, "fields": fam_fields, "byteorder": fam_byteorder, "match": fam_match, "hist": fam_hist, "stats": fam_stats,
       "coords": fam_coords, "wcs": fam_wcs, "cosmo": fam_cosmo, "htm": fam_htm}


def run_case(case):
    rng = np.random.default_rng(case["sub"])
    d = os.environ.get("VERIF_CASEDIR", ".")
    COL.sample({"family": case["family"], "layout": case["layout"]}, limit=8)
    if case["family"] == "big":
        return fam_big(rng, case["layout"], d, case["_i"], case)
    FAM[case["family"]](rng, case["layout"], d, case["_i"])


def evidence_extra(info, counts, sigs):
    calls = info.get("calls", {})
    ret = sum(v for k, v in calls.items() if k.endswith(":returned"))
    rai = sum(v for k, v in calls.items() if k.endswith(":raised"))
    return {"guarded_calls_returned": ret, "guarded_calls_raised_for_the_layout": rai,
            "guarded_call_shapes": len(set(k.rsplit(":", 1)[0] for k in calls))}
