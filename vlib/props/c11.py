"""C11 Cosmological distances equal their Hogg (1999) definitions."""
import copy
import math
import pickle

import numpy as np

from vlib import gen, probe
from vlib.probe import COL
from vlib.refs import cosmo as R

ID = "C11"
NATIVE = True
SAN_STRIDE = {"quick": 3, "thorough": 4}
RULE = ("seeded cosmologies: flat (omega_m in (0,1.5]), open / closed (omega_k in +-(0,0.5], omega_l = 1 - omega_m - "
        "omega_k), free omega_l, concordance-like; H0 in [30,120] or h; E^2 > 0.01 on [0,5]; redshift pairs 0 <= zmin "
        "<= zmax <= 5 incl. 0, equal and reversed; every method through all four scalar/array argument combinations "
        "with arrays of length 1-200 given as f8, f4, i8, list, strided view, negative stride, byte-swapped, 0-d, "
        "record field, 2-d column; objects from the constructor, copy(), copy.copy, copy.deepcopy, pickle; signature "
        "= (method, geometry, argument form, redshift class)")
TRUSTED = ["scipy.integrate.quad (epsrel 1e-13) as the value of the defining integrals", "numpy.polynomial.legendre.leggauss as the documented 5/10-point rule"]
ASSUMPTIONS = ["cosmologies whose E^2 falls below 0.01 on [0,5] are discarded", "flat=True is not combined with a non-zero omega_k",
               "the lensing constant is the documented 6.0150504541630152e-07"]
THOROUGH_ROUNDS = 2      # the thorough tier runs the generator over this many derived seeds
REQUIRED = {"quick": {"C11.value": 6000, "C11.identity": 1500, "C11.vector": 1500, "C11.params": 200, "C11.copy": 150, "C11.band": 100},
            "thorough": {"C11.value": 120000, "C11.identity": 30000, "C11.vector": 30000, "C11.params": 4000, "C11.copy": 3000, "C11.band": 2000}}
WATCHDOG = {"quick": 900, "thorough": 7200}
CASE_TIMEOUT = 300
TWO = ("Dc", "Dm", "Da", "Dl", "sigmacritinv")
ONE = ("dV", "distmod", "Ez_inverse")


def cases(seed, tier):
    n = 220 if tier == "quick" else 4400
    rng = np.random.default_rng([seed, 11])
    fams = ["flat", "open", "closed", "free-lambda", "concordance", "flat", "open", "closed", "params", "concordance", "layouts"]
    for i in range(n):
        yield {"family": fams[i % len(fams)], "sub": int(rng.integers(0, 2**31)), "volume": (i % 3 == 0)}
    for i in range(2 if tier == "quick" else 12):
        # (the thorough tier goes to 5e6 elements: above 2^22)
        yield {"family": "big", "sub": int(rng.integers(0, 2**31)), "volume": False, "first": i == 0, "cap": 2 ** 22 + 5 if tier == "quick" else 5 * 10 ** 6 + 3}


def params_of(obj):
    return R.P(obj.H0(), obj.flat(), obj.omega_m(), obj.omega_l(), obj.omega_k())


def geom(p):
    return "flat" if p.flat else ("open" if p.ok > 0 else "closed")


def zclass(a, b):
    return ("z0" if a == 0 else "z>0", "equal" if a == b else ("reversed" if a > b else ("<=1" if b <= 1 else "<=5")))


def band_ok(code, T, G, scale):
    """|code - T| <= 1.5 |G - T| + 1e-9 |T| (+ a rounding floor relative to the natural scale of the quantity)"""
    if not (math.isfinite(T) and math.isfinite(G)):
        return (code == T) or (math.isnan(code) and math.isnan(T))
    return abs(code - T) <= 1.5 * abs(G - T) + 1e-9 * abs(T) + 1e-13 * abs(scale)


def value_oracle(name):
    def oracle(call):
        if call.exc is not None or call.result is None:
            return
        obj = call.args[0]
        p = params_of(obj)
        if p.min_E2() <= 0.01:
            COL.skipped("C11.value", "E2-near-zero")
            return
        Tq, Gq = R.quantities(p, R.T_int), R.quantities(p, R.G_int)
        args = list(call.args[1:]) + [call.kwargs[k] for k in ("zmin", "zmax", "zl", "zs", "z") if k in call.kwargs]
        arrs = [np.atleast_1d(np.asarray(a, dtype="f8")).ravel() for a in args]
        res = np.atleast_1d(np.asarray(call.result, dtype="f8")).ravel()
        n = max(a.size for a in arrs)
        if res.size != n:
            COL.violation("C11.value", "%s returned %d values for %d inputs" % (name, res.size, n), {"args": [probe._jsonable(a) for a in args]})
            return
        idx = sorted(set([0, n - 1, n // 2] + [int(i) for i in np.linspace(0, n - 1, 6)])) if n > 8 else range(n)
        form = tuple("scalar" if np.ndim(a) == 0 and not isinstance(a, np.ndarray) else "array" for a in args)
        for i in idx:
            zs = [float(a[i] if a.size > 1 else a[0]) for a in arrs]
            if any(z < 0 or z > 5 for z in zs):
                COL.skipped("C11.value", "redshift-outside-[0,5]")
                continue
            if name == "V":
                T, G = R.T_V(p, *zs), R.G_V(p, *zs)
                scale = 4 * math.pi * p.DH ** 3 * 1e-3
            else:
                T, G = Tq[name](*zs), Gq[name](*zs)
                scale = {"Dc": p.DH, "Dm": p.DH, "Da": p.DH, "Dl": p.DH, "dV": p.DH ** 3, "distmod": 1.0, "Ez_inverse": 1.0,
                         "Ezinv_integral": 1.0, "sigmacritinv": R.FOUR_PI_G_OVER_C_SQUARED * p.DH}[name]
            c = float(res[i])
            if name == "sigmacritinv" and zs[1] <= zs[0]:
                ok = c == 0.0
            else:
                ok = band_ok(c, T, G, scale)
            if ok:
                COL.ok("C11.value", (name, geom(p), form) + (zclass(*zs) if len(zs) == 2 else ("z0" if zs[0] == 0 else "<=1" if zs[0] <= 1 else "<=5",)))
                if T not in (0.0,) and math.isfinite(T):
                    r = abs(c - T) / (1.5 * abs(G - T) + 1e-9 * abs(T) + 1e-13 * abs(scale))
                    COL.info["max_error_over_allowed"] = max(COL.info.get("max_error_over_allowed", 0.0), r)
            else:
                COL.violation("C11.value", "%s%r = %.17g; definition by quadrature %.17g, documented %s-point rule %.17g: error %.3g exceeds 1.5 x truncation %.3g + 1e-9|T|" % (
                    name, tuple(zs), c, T, "10x5" if name == "V" else "5", G, abs(c - T), abs(G - T)),
                    {"H0": p.H0, "flat": p.flat, "omega_m": p.om, "omega_l": p.ol, "omega_k": p.ok, "z": zs, "form": form, "index": int(i)})
    oracle.__name__ = "value_" + name
    return oracle


def install():
    probe.enable_recall("C11.recall", every=5)
    base = "esutil.cosmology.cosmology:Cosmo."
    for m in TWO + ONE + ("V", "Ezinv_integral"):
        probe.instrument(base + m, [value_oracle(m)])


# ---------------------------------------------------------------------------------------------------------------

def draw_cosmo(rng, fam):
    for _ in range(200):
        kw = {}
        if rng.random() < .5:
            kw["H0"] = float(rng.uniform(30, 120))
        elif rng.random() < .7:
            kw["h"] = float(rng.uniform(0.3, 1.2))
            if rng.random() < .3:
                kw["H0"] = 55.0              # h overrides H0
        if fam == "flat":
            kw["omega_m"] = float(rng.choice([rng.uniform(0.01, 1.5), 1.0, 1.5, 0.3]))
            if rng.random() < .3:
                kw["omega_l"] = float(rng.uniform(0, 1))     # ignored when flat
            if rng.random() < .3:
                kw["flat"] = True
            if rng.random() < .15:
                kw["flat"] = False           # documented: without omega_k the geometry defaults to flat
        elif fam in ("open", "closed"):
            ok = float(rng.uniform(0.001, 0.5)) * (1 if fam == "open" else -1)
            om = float(rng.uniform(0.05, 1.5))
            kw.update(omega_m=om, omega_k=ok, omega_l=1.0 - om - ok, flat=False)
        elif fam == "free-lambda":
            kw.update(omega_m=float(rng.uniform(0.05, 1.5)), omega_k=float(rng.uniform(-0.5, 0.5)), omega_l=float(rng.uniform(0.0, 1.2)), flat=False)
        elif fam == "concordance":
            kw = {"omega_m": float(rng.uniform(0.25, 0.35))}
            if rng.random() < .5:
                kw["h"] = float(rng.uniform(0.65, 0.75))
            else:
                kw["H0"] = float(rng.uniform(65, 75))
        else:
            kw.update(omega_m=float(rng.uniform(0.1, 1.0)))
            if rng.random() < .5:
                ok = float(rng.choice([0.0, rng.uniform(-.3, .3)]))
                kw.update(omega_k=ok, flat=False, omega_l=float(rng.uniform(.2, 1.0)))
        p = R.expected_params(kw)
        if p.min_E2() > 0.01 and (p.flat or p.ok != 0):
            # closed models: keep the transverse argument below pi (no antipode within z <= 5)
            if not p.flat and p.ok < 0 and math.sqrt(-p.ok) * R.T_int(p, 0, 5) > 3.0:
                continue
            return kw, p
    return {"omega_m": 0.3}, R.expected_params({"omega_m": 0.3})


FORMS = ["f8", "f4", "i8", "list", "strided", "negstride", "swapped", "0d", "recfield", "2dcol", "tuple"]


def as_form(rng, vals, form):
    v = np.asarray(vals, dtype="f8")
    if form == "f8":
        return v.copy(), v
    if form == "f4":
        a = v.astype("f4")
        return a, a.astype("f8")
    if form == "i8":
        a = np.round(v).astype("i8")
        return a, a.astype("f8")
    if form == "list":
        return v.tolist(), v
    if form == "tuple":
        return tuple(v.tolist()), v
    if form == "strided":
        big = np.full(v.size * 3, 4.5)
        big[::3] = v
        return big[::3], v
    if form == "negstride":
        return np.ascontiguousarray(v[::-1])[::-1], v
    if form == "swapped":
        return v.astype(">f8"), v
    if form == "0d":
        return np.array(v[0]), v[:1]
    if form == "recfield":
        t = np.zeros(v.size, dtype=[("id", "i4"), ("z", "f8"), ("w", "f4")])
        t["z"] = v
        t["id"] = 7
        return t["z"], v
    if form == "2dcol":
        m = np.full((v.size, 3), 4.25)
        m[:, 1] = v
        return m[:, 1], v
    raise ValueError(form)


def zpairs(rng, n):
    a = rng.uniform(0, 5, size=n)
    b = rng.uniform(0, 5, size=n)
    lo, hi = np.minimum(a, b), np.maximum(a, b)
    k = rng.integers(0, 8, size=n)
    lo = np.where(k == 0, 0.0, lo)
    hi = np.where(k == 1, lo, hi)
    hi = np.where(k == 2, np.minimum(hi, 1.0) * (lo <= 1) + hi * (lo > 1), hi)
    lo = np.where(k == 3, np.round(lo), lo)
    hi = np.where(k == 3, np.maximum(np.round(hi), lo), hi)
    return lo, np.maximum(hi, lo)


def bits(x):
    return np.atleast_1d(np.asarray(x, dtype="f8")).tobytes()


def run_big(case):
    """long redshift arrays through every array-valued entry point: element for element the same as short windows"""
    from esutil import cosmology
    rng = np.random.default_rng(case["sub"])
    n = gen.big_size(rng, cap=case.get("cap"), first=case.get("first", False))
    kw, p = draw_cosmo(rng, ["flat", "open", "closed"][int(rng.integers(0, 3))])
    c = cosmology.Cosmo(**kw)
    z = rng.uniform(0.0, 5.0, size=n)
    zlo = z * rng.uniform(0, 1, size=n)
    win = gen.windows(rng, n)
    COL.sample({"family": "big", "n": n, "kw": kw}, limit=3)
    for m in (TWO if case.get("first") else [TWO[int(rng.integers(0, len(TWO)))]]):       # every entry point and form once per run
        f = getattr(c, m)
        probe.big_vs_windows("C11.vector", m + "(scalar, array)", lambda b: f(0.05, b), [np.maximum(z, 0.05)], win)
        probe.big_vs_windows("C11.vector", m + "(array, scalar)", lambda a: f(a, 5.5), [z], win)
        probe.big_vs_windows("C11.vector", m + "(array, array)", lambda a, b: f(a, b), [zlo, z], win)
    for m1 in (ONE if case.get("first") else [ONE[int(rng.integers(0, len(ONE)))]]):
        probe.big_vs_windows("C11.vector", m1 + "(array)", getattr(c, m1), [np.maximum(z, 1e-3)], win)
    # several threads making array-valued calls on this one object at the same time: each must get what the same call
    # gives when made alone (the compiled loops may release the interpreter lock; any scratch they share must not)
    import threading
    m = TWO[int(rng.integers(0, len(TWO)))]
    f = getattr(c, m)
    chunks = [np.maximum(z[i * 200000:(i + 1) * 200000], 0.05) for i in range(min(6, n // 200000))]
    alone = [np.asarray(f(0.02, ch)).copy() for ch in chunks]
    got = [None] * len(chunks)

    def work(i):
        out = None
        for _ in range(4):
            out = np.asarray(f(0.02, chunks[i]))
        got[i] = out
    ths = [threading.Thread(target=work, args=(i,)) for i in range(len(chunks))]
    for t in ths:
        t.start()
    for t in ths:
        t.join()
    badth = [i for i in range(len(chunks)) if got[i] is None or got[i].shape != alone[i].shape or got[i].tobytes() != alone[i].tobytes()]
    if badth:
        COL.violation("C11.vector", "%s(scalar, array) called from %d threads on one Cosmo object: %d of the results differ from the same call made alone" % (
            m, len(chunks), len(badth)), {"method": m, "threads": len(chunks)}, key="threads-shared-object")
    elif chunks:
        COL.ok("C11.vector", ("threads", m, len(chunks)))


def run_case(case):
    if case["family"] == "big":
        return run_big(case)
    from esutil import cosmology
    rng = np.random.default_rng(case["sub"])
    fam = case["family"]
    kw, p = draw_cosmo(rng, fam if fam != "layouts" else ["flat", "open", "closed"][int(rng.integers(0, 3))])
    c = cosmology.Cosmo(**kw)
    wit0 = {"kw": kw}
    COL.sample({"family": fam, "kw": kw}, limit=8)
    g = geom(p)
    # ---- parameter normalisation
    rep = params_of(c)
    bad = None
    if rep.flat != p.flat:
        bad = "flat() = %r, documented rules give %r" % (rep.flat, p.flat)
    elif rep.flat and (rep.ok != 0.0 or rep.ol != 1.0 - rep.om):
        bad = "flat but omega_k = %r, omega_l = %r, omega_m = %r" % (rep.ok, rep.ol, rep.om)
    elif (rep.om, rep.ol, rep.ok) != (p.om, p.ol, p.ok):
        bad = "(omega_m, omega_l, omega_k) = %r, expected %r" % ((rep.om, rep.ol, rep.ok), (p.om, p.ol, p.ok))
    elif rep.H0 != p.H0:
        bad = "H0() = %r, expected %r (h overrides H0)" % (rep.H0, p.H0)
    elif abs(c.DH() - R.CLIGHT / p.H0) > 1e-12 * c.DH():
        bad = "DH() = %r, c/H0 = %r" % (c.DH(), R.CLIGHT / p.H0)
    if bad:
        COL.violation("C11.params", bad, wit0)
        return
    COL.ok("C11.params", (g, tuple(sorted(kw))))
    # a second, different cosmology alive at the same time: every call below is repeated on it with bit-identical
    # arguments right after the first object's call (state must not leak between objects or between calls)
    kw2, p2 = draw_cosmo(rng, ["flat", "open", "closed"][int(rng.integers(0, 3))])
    c_other = cosmology.Cosmo(**kw2)
    # ---- scalar values (judged by the wrappers) and identities
    n = 6 if fam != "concordance" else 10
    lo, hi = zpairs(rng, n)
    for a, b in zip(lo.tolist(), hi.tolist()):
        for m in TWO:
            getattr(c, m)(a, b)
            getattr(c_other, m)(a, b)
            getattr(c_other, m)(a, min(b + 0.25, 5.0))
            getattr(c, m)(a, min(b + 0.25, 5.0))
        za = np.array([a, a, min(a + 0.1, 5.0)])
        zb = np.array([b, min(b + 0.5, 5.0), 5.0])
        for m in TWO:
            getattr(c, m)(za, zb)
            getattr(c_other, m)(za, zb)
            getattr(c_other, m)(za[-1], zb)
            getattr(c, m)(za[-1], zb)
        dc, dm, da, dl = c.Dc(a, b), c.Dm(a, b), c.Da(a, b), c.Dl(a, b)
        c.Ezinv_integral(a, b)
        c.Ez_inverse(b)
        c.dV(b)
        if b > 0:
            c.distmod(b)
        sc = c.sigmacritinv(a, b)
        idb = []
        tol = 1e-13
        if abs(da - dm / (1 + b)) > tol * abs(dm):
            idb.append("Da != Dm/(1+z): %r vs %r" % (da, dm / (1 + b)))
        if abs(dl - dm * (1 + b)) > tol * abs(dl):
            idb.append("Dl != Dm(1+z): %r vs %r" % (dl, dm * (1 + b)))
        if p.flat and dm != dc:
            idb.append("flat but Dm %r != Dc %r" % (dm, dc))
        rdc = c.Dc(b, a)
        if abs(rdc + dc) > tol * abs(dc):
            idb.append("Dc(b,a) %r != -Dc(a,b) %r" % (rdc, -dc))
        if c.sigmacritinv(b, a) != 0.0 or c.sigmacritinv(b, b) != 0.0:
            idb.append("sigmacritinv not zero for a source at or in front of the lens")
        if b > a > 0 and not (sc > 0):
            idb.append("sigmacritinv(%r,%r) = %r not positive" % (a, b, sc))
        for m in idb:
            COL.violation("C11.identity", m, dict(wit0, z=[a, b]))
        if not idb:
            COL.ok("C11.identity", (g,) + zclass(a, b), n=5)
    if case.get("volume"):
        a, b = float(lo[0]), float(hi[0])
        c.V(a, b)
        c.V(0.0, float(rng.uniform(0.1, 5)))
    # ---- truncation bands of the statement on concordance-like parameters
    if fam == "concordance":
        Tq = R.quantities(p, R.T_int)
        for z in list(rng.uniform(0.01, 1.0, size=4)) + list(rng.uniform(1.0, 5.0, size=4)) + [1.0, 5.0]:
            z = float(z)
            lim = 1e-6 if z <= 1 else 1e-3
            worst = 0.0
            for nm in ("Dc", "Dm", "Da", "Dl"):
                T = Tq[nm](0.0, z)
                worst = max(worst, abs(getattr(c, nm)(0.0, z) - T) / T)
            if worst < lim:
                COL.ok("C11.band", ("z<=1" if z <= 1 else "z<=5",))
                COL.info["max_rel_err_z<=1" if z <= 1 else "max_rel_err_z<=5"] = max(COL.info.get("max_rel_err_z<=1" if z <= 1 else "max_rel_err_z<=5", 0.0), worst)
            else:
                COL.violation("C11.band", "relative error %.3g of a distance to z=%.4f exceeds the stated %.0e" % (worst, z, lim), dict(wit0, z=z))
    # ---- array-valued calls: element for element the scalar results, bit for bit
    forms = FORMS if fam == "layouts" else [FORMS[int(i)] for i in rng.permutation(len(FORMS))[:3]]
    real = {m: getattr(cosmology.Cosmo, m) for m in TWO + ONE}
    for form in forms:
        nn = int(rng.choice([1, 2, 7, 200])) if form != "0d" else 1
        lo, hi = zpairs(rng, nn)
        A, av = as_form(rng, lo, form)
        B, bv = as_form(rng, hi, form)
        if form == "i8":
            bv = np.maximum(bv, av)
            B = bv.astype("i8")
        s_lo, s_hi = float(av[0]), float(bv[-1])
        for m in TWO:
            f = getattr(c, m)
            fr = getattr(real[m], "_real", real[m])
            combos = [("array,array", (A, B), [(x, y) for x, y in zip(av, bv)]),
                      ("scalar,array", (s_lo, B), [(s_lo, y) for y in bv]),
                      ("array,scalar", (A, s_hi), [(x, s_hi) for x in av])]
            for cname, args, pairs in combos:
                res, e = probe.attempt(f, *args)
                w = dict(wit0, method=m, form=form, combo=cname, n=nn)
                if e is not None:
                    COL.violation("C11.vector", "%s(%s as %s) raised %s: %s" % (m, cname, form, type(e).__name__, str(e)[:120]), w)
                    continue
                exp = np.array([fr(c, float(x), float(y)) for x, y in pairs], dtype="f8")
                r = np.atleast_1d(np.asarray(res))
                if r.shape != exp.shape or r.dtype != np.float64 or r.tobytes() != exp.tobytes():
                    i = int(np.nonzero(r.ravel() != exp.ravel())[0][0]) if r.shape == exp.shape and (r != exp).any() else -1
                    COL.violation("C11.vector", "%s(%s as %s, n=%d): array result differs from the scalar calls (first at element %d: %r vs %r)" % (
                        m, cname, form, nn, i, r.ravel()[i] if i >= 0 else r.shape, exp.ravel()[i] if i >= 0 else exp.shape), w)
                else:
                    COL.ok("C11.vector", (m, cname, form, min(nn, 3)))
        for m in ONE:
            if m == "distmod" and (bv <= 0).any():
                continue
            f = getattr(c, m)
            fr = getattr(real[m], "_real", real[m])
            res, e = probe.attempt(f, B)
            w = dict(wit0, method=m, form=form, n=nn)
            if e is not None:
                COL.violation("C11.vector", "%s(array as %s) raised %s: %s" % (m, form, type(e).__name__, str(e)[:120]), w)
                continue
            exp = np.array([fr(c, float(y)) for y in bv], dtype="f8")
            r = np.atleast_1d(np.asarray(res))
            if r.shape != exp.shape or r.tobytes() != exp.tobytes():
                COL.violation("C11.vector", "%s(array as %s, n=%d): array result differs from the scalar calls" % (m, form, nn), w)
            else:
                COL.ok("C11.vector", (m, "array", form, min(nn, 3)))
    # mismatched lengths are rejected
    for m in TWO:
        # every pair of unequal lengths, in particular those where one array has a single element (which broadcasting
        # rules would let through) and both orders; arrays, lists and mixed
        la, lb = [(3, 2), (1, 3), (3, 1), (1, 2), (2, 1), (int(rng.integers(1, 9)), int(rng.integers(9, 30)))][int(rng.integers(0, 6))]
        za, zb = np.linspace(0.1, 0.3, la), np.linspace(0.5, 0.9, lb)
        cont = int(rng.integers(0, 3))
        if cont == 1:
            za, zb = za.tolist(), zb.tolist()
        elif cont == 2:
            zb = zb.tolist()
        res, e = probe.attempt(getattr(c, m), za, zb)
        if e is None:
            COL.violation("C11.vector", "%s accepted arrays of lengths %d and %d" % (m, la, lb), dict(wit0, got=repr(res)[:100]),
                          key="mismatch-accepted")
        else:
            COL.ok("C11.vector", (m, "mismatch-rejected", la == 1, lb == 1, cont))
    # ---- copies report the same parameters and give bit-identical distances
    zs = np.array([0.0, 0.3, 1.0, 2.5, 5.0])
    base = {m: bits(getattr(c, m)(0.05, zs)) for m in TWO}
    base.update({m: bits(getattr(c, m)(zs[1:])) for m in ONE})
    base["V"] = bits(c.V(0.1, 1.1))
    P0 = (c.H0(), c.DH(), bool(c.flat()), c.omega_m(), c.omega_l(), c.omega_k())
    for how, mk in (("copy()", lambda: c.copy()), ("copy.copy", lambda: copy.copy(c)), ("copy.deepcopy", lambda: copy.deepcopy(c)),
                    ("pickle", lambda: pickle.loads(pickle.dumps(c))), ("pickle-protocol-2", lambda: pickle.loads(pickle.dumps(c, 2))),
                    ("copy-of-copy", lambda: copy.deepcopy(c.copy()))):
        c2, e = probe.attempt(mk)
        if e is not None:
            COL.violation("C11.copy", "%s raised %s: %s" % (how, type(e).__name__, str(e)[:120]), wit0)
            continue
        P1 = (c2.H0(), c2.DH(), bool(c2.flat()), c2.omega_m(), c2.omega_l(), c2.omega_k())
        if P1 != P0:
            COL.violation("C11.copy", "%s reports (H0, DH, flat, omega_m, omega_l, omega_k) = %r, the original %r" % (how, P1, P0), wit0)
            continue
        got = {m: bits(getattr(c2, m)(0.05, zs)) for m in TWO}
        got.update({m: bits(getattr(c2, m)(zs[1:])) for m in ONE})
        got["V"] = bits(c2.V(0.1, 1.1))
        diff = [m for m in base if base[m] != got[m]]
        if diff:
            COL.violation("C11.copy", "%s: %s differ in bits from the original object's" % (how, ", ".join(diff)), wit0)
        else:
            COL.ok("C11.copy", (how, g, tuple(sorted(kw))))
