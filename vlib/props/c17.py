"""C17 Gauss-Legendre rules are exact to degree 2n-1 and the integrators use them."""
import functools

import numpy as np

from vlib import gen, probe
from vlib.probe import COL

ID = "C17"
NATIVE = True
SAN_STRIDE = {"quick": 3, "thorough": 4}
RULE = ("gauleg: n = 1..200 exhaustively (quick: every n once on a rotating interval family; thorough: every n on "
        "every family) plus n in {300,500,1000,2000}; intervals unit, negative, offset, 1e-300 and 1e+300 wide, a>b; "
        "random polynomials of degree <= 2n-1 for n <= 30; QGauss histories of 2-10 integrate calls with changing "
        "npts on one object (functions and tabulated data, uneven abscissae); QGauss2(nx,ny), nx,ny in 1..12; "
        "signature = (monitor, n or (nx,ny), interval family, integrand, position in history)")
TRUSTED = ["numpy.polynomial.legendre.leggauss", "numpy long double Horner evaluation"]
ASSUMPTIONS = ["for a>b the rule is the mirrored one (nodes from a down to b, negative weights)",
               "a call with npts=None after an explicit override is judged with the point count then in effect",
               "offset intervals keep |b-a| >= 1e-3 max(|a|,|b|) so that node spacing exceeds rounding"]
THOROUGH_ROUNDS = 20      # the thorough tier runs the generator over this many derived seeds
REQUIRED = {"quick": {"C17.rule": 200, "C17.poly": 100, "C17.qgauss": 300, "C17.qgauss2": 60},
            "thorough": {"C17.rule": 1500, "C17.poly": 1500, "C17.qgauss": 5000, "C17.qgauss2": 1000}}
LD = np.longdouble
IVALS = ["unit", "neg", "offset", "tiny", "huge", "reversed", "random"]
CASE_TIMEOUT = 300


@functools.lru_cache(maxsize=None)
def refrule(n):
    x, w = np.polynomial.legendre.leggauss(n)
    return x.astype(LD), w.astype(LD)


def interval(kind, rng):
    if kind == "unit":
        return -1.0, 1.0
    if kind == "neg":
        a = -float(rng.uniform(1, 100))
        return a, a + float(rng.uniform(0.5, 50))
    if kind == "offset":
        a = float(rng.normal()) * 10.0 ** rng.integers(-3, 6)
        return a, a + max(abs(a) * 1e-3, 1e-9) * float(rng.uniform(1, 1e4))
    if kind == "far-narrow":
        # a narrow interval far from the origin: width 1e6 .. 1e8 ulp of the (non-dyadic) offset; the nodes can only be
        # as good as that ulp, but half-length and weights depend on b - a alone
        c = float(rng.choice([-1.0, 1.0])) * float(rng.uniform(1, 10)) * 10.0 ** int(rng.integers(0, 9))
        w = float(np.spacing(abs(c))) * 10.0 ** float(rng.uniform(6, 8))
        return (c, c + w) if rng.random() < .7 else (c + w, c)
    if kind == "tiny":
        return 0.0, float(rng.uniform(1, 9)) * 1e-300
    if kind == "huge":
        return -float(rng.uniform(1, 9)) * 1e299, float(rng.uniform(1, 9)) * 1e299
    if kind == "reversed":
        a = float(rng.uniform(-5, 5))
        return a + float(rng.uniform(0.1, 10)), a
    a = float(rng.uniform(-10, 10))
    return a, a + float(rng.uniform(1e-3, 20))


def cases(seed, tier):
    rng = np.random.default_rng([seed, 17])
    out = []
    if tier == "quick":
        for n in range(1, 201):
            out.append({"family": "rule", "n": n, "ival": IVALS[(n + seed) % len(IVALS)], "sub": int(rng.integers(0, 2**31))})
        for n in (300, 500, 1000):
            out.append({"family": "rule", "n": n, "ival": "unit", "sub": int(rng.integers(0, 2**31))})
        for n in range(1, 31):
            out.append({"family": "rule", "n": n, "ival": "far-narrow", "sub": int(rng.integers(0, 2**31))})
        nh, n2 = 120, 80
    else:
        for n in range(1, 201):
            for iv in IVALS:
                out.append({"family": "rule", "n": n, "ival": iv, "sub": int(rng.integers(0, 2**31))})
        for n in (300, 500, 1000, 2000):
            for iv in ("unit", "random", "reversed"):
                out.append({"family": "rule", "n": n, "ival": iv, "sub": int(rng.integers(0, 2**31))})
        for rep in range(20):
            for n in range(1, 31):
                out.append({"family": "rule", "n": n, "ival": "far-narrow", "sub": int(rng.integers(0, 2**31))})
        nh, n2 = 1500, 1200
    for i in range(nh):
        out.append({"family": "history-func" if i % 2 else "history-data", "sub": int(rng.integers(0, 2**31))})
    for i in range(n2):
        out.append({"family": "qgauss2", "sub": int(rng.integers(0, 2**31))})
    return out


# ---- oracles ----------------------------------------------------------------

def _o_gauleg(call):
    x1, x2, n = float(call.arg(0, "x1")), float(call.arg(1, "x2")), int(call.arg(2, "npts"))
    fam = (COL.case or {}).get("ival", "nested" if call.depth else "?")
    wit = {"x1": x1, "x2": x2, "npts": n}
    if call.exc is not None:
        if n >= 1:
            COL.violation("C17.rule", "gauleg raised %r" % call.exc, wit)
        return
    x, w = call.result
    L = x2 - x1
    aL = abs(L)
    tol = 1e-9 * aL + 8 * np.finfo(float).eps * max(abs(x1), abs(x2))       # abscissae: also limited by the ulp of the offset
    tolw = 1e-9 * aL                                                          # weights depend on b - a only
    bad = None
    key = None
    if x.shape != (n,) or w.shape != (n,):
        bad = "wrong lengths %r %r" % (x.shape, w.shape)
    elif not (np.all(np.isfinite(x)) and np.all(np.isfinite(w))):
        bad = "non-finite abscissa or weight: x=%r w=%r" % (x[:3].tolist(), w[:3].tolist())
        if n == 1:
            key = "gauleg/npts-1-infinite-weight"
    else:
        s = np.sign(L)
        lo, hi = min(x1, x2), max(x1, x2)
        xr, wr = refrule(n)
        xm, xl = (LD(x1) + LD(x2)) / 2, (LD(x2) - LD(x1)) / 2
        xe, we = xm + xl * xr, xl * wr
        if not np.all((x > lo) & (x < hi)):
            bad = "abscissae not strictly inside the interval"
        elif n > 1 and not np.all(s * np.diff(x) > 0):
            bad = "abscissae not monotone from a to b"
        elif np.abs((x + x[::-1]).astype(LD) - (LD(x1) + LD(x2))).max() > tol:
            bad = "abscissae not symmetric about the midpoint"
        elif not np.all(s * w > 0):
            bad = "weights do not all have the sign of (b-a)"
        elif np.abs(w - w[::-1]).max() > tolw:
            bad = "weights not symmetric"
        elif abs(w.astype(LD).sum() - (LD(x2) - LD(x1))) > tolw:
            bad = "weights sum to %r, not b-a=%r (relative error %.3g)" % (float(w.sum()), L, float(abs(w.astype(LD).sum() - (LD(x2) - LD(x1))) / aL))
        elif np.abs(x - xe).max() > tol:
            i = int(np.abs(x - xe).argmax())
            bad = "abscissa %d = %r differs from the reference rule %r" % (i, float(x[i]), float(xe[i]))
        elif np.abs(w - we).max() > tolw:
            i = int(np.abs(w - we).argmax())
            bad = "weight %d = %r differs from the reference rule %r" % (i, float(w[i]), float(we[i]))
    if bad:
        COL.violation("C17.rule", "gauleg(%r,%r,%d): %s" % (x1, x2, n, bad), wit, key=key)
        return
    COL.ok("C17.rule", ("rule", n, fam))
    if n <= 30 and call.depth == 0 and COL.case is not None:
        rng = np.random.default_rng((COL.case or {}).get("sub", 0))
        xm, xl = (LD(x1) + LD(x2)) / 2, (LD(x2) - LD(x1)) / 2
        t = (x.astype(LD) - xm) / xl
        grid = np.linspace(-1, 1, 2001).astype(LD)
        # far from the origin the abscissae are only as good as the ulp of the offset: only the constant polynomial (the
        # sum of the weights) can be asked to 1e-9 (b-a) there
        degrees = [0] if fam == "far-narrow" else sorted(set([2 * n - 1, 2 * n - 2 if n > 1 else 0, int(rng.integers(0, 2 * n))]))
        for deg in degrees:
            c = rng.normal(size=deg + 1).astype(LD)
            if rng.random() < .3:
                c *= (10.0 ** rng.uniform(-3, 3, size=deg + 1)).astype(LD)

            def horner(tt):
                r = np.zeros_like(tt) + c[-1]
                for ck in c[-2::-1]:
                    r = r * tt + ck
                return r
            exact = xl * sum(ck * 2 / (k + 1) for k, ck in enumerate(c) if k % 2 == 0)
            got = (w.astype(LD) * horner(t)).sum()
            pmax = max(np.abs(horner(grid)).max(), np.abs(horner(t)).max())
            if abs(got - exact) < 1e-9 * aL * pmax:
                COL.ok("C17.poly", ("poly", n, deg, fam))
            else:
                COL.violation("C17.poly", "degree-%d polynomial integrated with error %.3g >= 1e-9 (b-a) max|p| = %.3g (n=%d)" % (
                    deg, float(abs(got - exact)), float(1e-9 * aL * pmax), n), dict(wit, coeffs=c.astype("f8")[:8]))


def _band(aL, fmax, dfmax):
    return 3e-9 * aL * (fmax + aL * dfmax)


def _expect_func(func, x1, x2, n):
    xr, wr = refrule(n)
    xm, xl = (x1 + x2) / 2.0, (x2 - x1) / 2.0
    xe = (xm + xl * xr.astype("f8"))
    f = np.asarray(func(xe), dtype=LD)
    h = 1e-6 * abs(x2 - x1)
    df = np.abs(np.asarray(func(xe + h), dtype=LD) - np.asarray(func(xe - h), dtype=LD)) / (2 * h)
    exp = LD(xl) * (wr * f).sum()
    return exp, _band(abs(x2 - x1), float(np.abs(f).max()), float(df.max()))


def _lin(xt, yt, q):
    j = np.clip(np.searchsorted(xt, q, side="right") - 1, 0, xt.size - 2)
    xt, yt = xt.astype(LD), yt.astype(LD)
    return yt[j] + (yt[j + 1] - yt[j]) / (xt[j + 1] - xt[j]) * (q.astype(LD) - xt[j])


def _o_integrate(kind):
    def oracle(call):
        if call.depth > 0 and kind != "qgauss":
            # integrate() dispatches to integrate_func/integrate_data: judge the inner, deciding call only once
            pass
        self = call.args[0]
        xv = call.arg(1, "xvals")
        yf = call.arg(2, "func" if kind == "func" else "yvals")
        npts = call.arg(3, "npts")
        n = self.npts
        wit = {"kind": kind, "npts_arg": npts, "npts_in_effect": n, "hist": (COL.case or {}).get("_hist")}
        if call.exc is not None:
            COL.violation("C17.qgauss", "integrate_%s raised %r" % (kind, call.exc), wit)
            return
        if npts is not None and n != npts:
            COL.violation("C17.qgauss", "explicit npts=%r not in effect (object holds %r)" % (npts, n), wit)
            return
        if kind == "func":
            x1, x2 = float(xv[0]), float(xv[1])
            exp, band = _expect_func(yf, x1, x2, n)
        else:
            xt, yt = np.asarray(xv, dtype="f8"), np.asarray(yf, dtype="f8")
            x1, x2 = float(xt.min()), float(xt.max())
            xr, wr = refrule(n)
            xm, xl = (x1 + x2) / 2.0, (x2 - x1) / 2.0
            q = xm + xl * xr.astype("f8")
            vals = _lin(xt, yt, q)
            exp = LD(xl) * (wr * vals).sum()
            slope = np.abs(np.diff(yt) / np.diff(xt)).max()
            band = _band(x2 - x1, float(np.abs(yt).max()), float(slope))
        got = LD(call.result)
        # 1e-300: below the normal range of doubles a relative precision cannot be asked for (intervals 1e-300 wide)
        if abs(got - exp) <= 1e-12 * abs(exp) + band + LD(1e-300):
            pos = (COL.case or {}).get("_pos", 0)
            COL.ok("C17.qgauss", ("qgauss", kind, n, min(pos, 5), (COL.case or {}).get("_prev_n")))
        else:
            COL.violation("C17.qgauss", "integrate_%s with %d points returned %r; the %d-point rule's weighted sum is %r (band %.3g)" % (
                kind, n, float(got), n, float(exp), band), wit)
    return oracle


def _o_qgauss2(call):
    self = call.args[0]
    xr_, yr_, func = call.arg(1, "xrng"), call.arg(2, "yrng"), call.arg(3, "func")
    nx, ny = self.nx, self.ny
    wit = {"nx": nx, "ny": ny, "xrng": list(map(float, xr_)), "yrng": list(map(float, yr_))}
    if call.exc is not None:
        COL.violation("C17.qgauss2", "QGauss2.integrate_func raised %r" % call.exc, wit)
        return
    x1, x2, y1, y2 = float(xr_[0]), float(xr_[1]), float(yr_[0]), float(yr_[1])
    gx, wx = refrule(nx)
    gy, wy = refrule(ny)
    X = ((x1 + x2) / 2 + (x2 - x1) / 2 * gx.astype("f8"))
    Y = ((y1 + y2) / 2 + (y2 - y1) / 2 * gy.astype("f8"))
    XX, YY = np.meshgrid(X, Y, indexing="ij")
    F = np.asarray(func(XX, YY), dtype=LD)
    exp = LD((x2 - x1) / 2) * LD((y2 - y1) / 2) * (wx[:, None] * wy[None, :] * F).sum()
    hx, hy = 1e-6 * abs(x2 - x1), 1e-6 * abs(y2 - y1)
    dfx = np.abs(np.asarray(func(XX + hx, YY), dtype=LD) - np.asarray(func(XX - hx, YY), dtype=LD)).max() / (2 * hx)
    dfy = np.abs(np.asarray(func(XX, YY + hy), dtype=LD) - np.asarray(func(XX, YY - hy), dtype=LD)).max() / (2 * hy)
    area = abs((x2 - x1) * (y2 - y1))
    band = 6e-9 * area * (float(np.abs(F).max()) + abs(x2 - x1) * float(dfx) + abs(y2 - y1) * float(dfy))
    got = LD(call.result)
    if abs(got - exp) <= 1e-12 * abs(exp) + band + LD(1e-300):       # integrands that underflow: no relative precision below 1e-300
        COL.ok("C17.qgauss2", ("qgauss2", nx, ny))
    else:
        COL.violation("C17.qgauss2", "QGauss2(%d,%d) returned %r; tensor-product sum is %r" % (nx, ny, float(got), float(exp)), wit)


def _o_qgauss2_init(call):
    nx, ny = call.arg(1, "nx"), call.arg(2, "ny")
    if call.exc is not None and nx >= 1 and ny >= 1:
        key = "qgauss2/nx-ne-ny-cannot-be-constructed" if nx != ny else None
        COL.violation("C17.qgauss2", "QGauss2(%d,%d) cannot be constructed: %r" % (nx, ny, call.exc), {"nx": nx, "ny": ny}, key=key)


def install():
    probe.enable_recall("C17.recall", every=5)
    u = "esutil.integrate.util:"
    probe.instrument(u + "gauleg", [_o_gauleg], also=["esutil.integrate"])
    probe.instrument(u + "QGauss.integrate_func", [_o_integrate("func")])
    probe.instrument(u + "QGauss.integrate_data", [_o_integrate("data")])
    probe.instrument(u + "QGauss2.integrate_func", [_o_qgauss2])
    probe.instrument(u + "QGauss2.__init__", [_o_qgauss2_init])
    probe.instrument(u + "qgauss", [], also=["esutil.integrate"])


# module-level integrands (FunctionType, deterministic, vectorised)
def f_gauss(x):
    return np.exp(-0.5 * x * x)


def f_sin3(x):
    return np.sin(3 * x) + 2


def f_lorentz(x):
    return 1.0 / (1.0 + x * x)


def f_poly(x):
    return ((0.3 * x - 1.0) * x + 0.5) * x - 2.0


def f_xcos(x):
    return x * np.cos(x)


def f_const(x):
    return np.zeros_like(x) + 1.75


FUNCS = [f_gauss, f_sin3, f_lorentz, f_poly, f_xcos, f_const]


def g_gauss2(x, y):
    return np.exp(-0.5 * (x * x + 2 * y * y))


def g_asym(x, y):
    return np.sin(x) + 3 * y * y + x * y + 1.0


def g_xonly(x, y):
    return x * x * x + 0 * y + 2


def g_yonly(x, y):
    return 0 * x + np.cos(2 * y)


FUNCS2 = [g_gauss2, g_asym, g_xonly, g_yonly]


def run_case(case):
    import esutil.integrate as ig
    rng = np.random.default_rng(case["sub"])
    fam = case["family"]
    if fam == "rule":
        a, b = interval(case["ival"], rng)
        COL.sample({"family": fam, "n": case["n"], "interval": [a, b]}, limit=3)
        res, e = probe.attempt(ig.gauleg, a, b, case["n"])
        if e is None and rng.random() < .5:
            # the returned arrays belong to the caller: rescale them in place (as one does to map a [-1,1] rule onto an
            # interval), then ask for the same rule again, directly and through an integrator - all judged by the wrappers
            x, w = res
            x *= 3.0
            x += 1.0
            w[:] = 0.0
            probe.attempt(ig.gauleg, a, b, case["n"])
            r1, e1 = probe.attempt(ig.gauleg, -1.0, 1.0, case["n"])
            if e1 is None:
                r1[0][:] = 5.0
                r1[1][:] = -1.0
            qg, e2 = probe.attempt(ig.QGauss, case["n"])
            if e2 is None:
                case["_pos"], case["_prev_n"], case["_hist"] = 0, None, [["func-after-mutation", case["n"]]]
                probe.attempt(qg.integrate, [0.25, 2.0], FUNCS[0], npts=case["n"])
        return
    if fam in ("history-func", "history-data"):
        first = int(rng.choice([1, 2, 3, 5, 10, 30, 100])) if rng.random() < .8 else None
        qg, e = probe.attempt(ig.QGauss, first)
        if e is not None:
            COL.violation("C17.qgauss", "QGauss(%r) raised %r" % (first, e), {})
            return
        hist = []
        prev = first
        steps = int(rng.integers(2, 11))
        for pos in range(steps):
            n = int(rng.choice([1, 2, 3, 4, 7, 10, 20, 50, 100]))
            if qg.npts is not None and rng.random() < .25:
                n = None
            if qg.npts is None and n is None:
                n = 5
            case["_pos"], case["_prev_n"], case["_hist"] = pos, prev, hist[-6:]
            if fam == "history-func":
                f = FUNCS[int(rng.integers(0, len(FUNCS)))]
                if n is not None and n <= 20 and rng.random() < .15:
                    # an iterated integral done with one object: the integrand integrates over another interval with the
                    # same QGauss (and the same number of points) before the outer sum is formed
                    nin, inner = n, FUNCS[int(rng.integers(0, len(FUNCS)))]
                    shift = float(rng.uniform(0.5, 3.0))

                    def f(x, _q=qg, _n=nin, _g=inner, _s=shift):
                        return np.array([_q.integrate([0.0, _s + abs(float(t))], _g, npts=_n) for t in np.atleast_1d(x)])
                    f.__name__ = "nested_" + inner.__name__
                a, b = interval(["unit", "neg", "random", "reversed"][int(rng.integers(0, 4))], rng)
                hist.append(["func", f.__name__, a, b, n])
                rr = rng.random()
                if rr < .6:
                    probe.attempt(qg.integrate, [a, b], f, npts=n)
                elif rr < .85:
                    probe.attempt(qg.integrate_func, (a, b), f, n)
                else:
                    if n is not None:
                        probe.attempt(ig.qgauss, [a, b], f, n)
            else:
                m = int(rng.choice([2, 3, 10, 100]))
                xt = np.cumsum(rng.uniform(0.05, 1.0, size=m)) + rng.normal() * 5
                if rng.random() < .3:
                    xt = np.linspace(xt[0], xt[-1], m)
                yt = FUNCS[int(rng.integers(0, len(FUNCS)))](xt) if rng.random() < .5 else rng.normal(size=m)
                if rng.random() < .35:
                    # the same table in other units (1e-14 .. 1e+12), starting at 0: the rule must scale with the interval
                    xt = (xt - xt[0]) * 10.0 ** float(rng.integers(-14, 13))
                if rng.random() < .2:
                    # whole-number tables stored in integer (also unsigned) and float32 dtypes
                    xt = np.sort(rng.choice(np.arange(60, 250), size=m, replace=False)).astype(str(rng.choice(["u1", "u2", "i2", "i8", "u8", "f4"])))
                    yt = rng.integers(0, 200, size=m).astype(str(rng.choice(["u1", "i4", "f8", "f4"])))
                hist.append(["data", m, n])
                xt, yt = gen.maybe_view(rng, xt), gen.maybe_view(rng, yt)
                if rng.random() < .8:
                    probe.attempt(qg.integrate, xt, yt, npts=n)
                elif n is not None:
                    probe.attempt(ig.qgauss, xt, yt, n)
            prev = qg.npts
        COL.sample({"family": fam, "first_npts": first, "history": hist[:10]}, limit=6)
        return
    if fam == "qgauss2":
        nx, ny = int(rng.integers(1, 13)), int(rng.integers(1, 13))
        if rng.random() < .25:
            ny = nx
        q, e = probe.attempt(ig.QGauss2, nx, ny)
        if e is not None:
            return
        for _ in range(int(rng.integers(1, 4))):
            g = FUNCS2[int(rng.integers(0, len(FUNCS2)))]
            a, b = interval(["unit", "neg", "random"][int(rng.integers(0, 3))], rng)
            c, d = interval(["unit", "random", "reversed"][int(rng.integers(0, 3))], rng)
            probe.attempt(q.integrate_func, [a, b], [c, d], g)
