"""C20 Sorting, chunking and progress/parallel wrappers preserve items and order."""
import collections
import hashlib
import io
import itertools
import json
import os
import time

import numpy as np

from vlib import probe
from vlib.probe import COL

ID = "C20"
NATIVE = False
MAX_WORKERS = 12
RULE = ("quicksort / quicksort_keyvalue on lists and 1-d arrays (ints with heavy ties, floats, strings; random, sorted, "
        "reversed, constant, organ-pipe; length 0-400); isplit enumerated exhaustively for num 0-200 x nchunks 1-60 "
        "plus large and numpy-integer arguments; splitarray for nper 1..n+1 over arrays, lists and scalars; "
        "pbar / PBar / prange over list, tuple, range, ndarray, generator without len, empty iterables x desc x total "
        "(none, exact, over, under) x leave x simple x mininterval x miniters x n_bars with a laziness probe after "
        "every item; pmap with nproc 1-8, chunksize 1..len+1, 0-60 items and a task function with item-derived "
        "latency (early items slowest) whose per-process trace files give the completion order; signature per "
        "monitor = (function, input class, option tuple)")
TRUSTED = ["Python sorted / collections.Counter", "OS process scheduling as the source of interleavings (observed orders are reported)"]
ASSUMPTIONS = ["sorted inputs are kept <= 400 elements (the sort recurses once per element on sorted input)",
               "simple=True on a length-less iterable without total= is documented to raise and is not generated; total=0 "
               "for a non-empty iterable is not generated",
               "the text of the progress meter is collected but not compared",
               "pmap task functions are module-level (picklable); worker crashes are not injected"]
THOROUGH_ROUNDS = 5      # the thorough tier runs the generator over this many derived seeds
REQUIRED = {"quick": {"C20.sort": 6000, "C20.isplit": 12000, "C20.splitarray": 1500, "C20.progress": 4500, "C20.pmap": 160},
            "thorough": {"C20.sort": 150000, "C20.isplit": 12000, "C20.splitarray": 40000, "C20.progress": 120000, "C20.pmap": 2400}}
WATCHDOG = {"quick": 900, "thorough": 7200}
CASE_TIMEOUT = 300


def cases(seed, tier):
    rng = np.random.default_rng([seed, 20])
    q = tier == "quick"
    out = []
    for i in range(120 if q else 3000):
        out.append({"family": "sort", "sub": int(rng.integers(0, 2**31))})
    for num in range(0, 201):
        out.append({"family": "isplit", "num": num})
    for i in range(60 if q else 1500):
        out.append({"family": "splitarray", "sub": int(rng.integers(0, 2**31))})
    for i in range(150 if q else 4000):
        out.append({"family": "progress", "sub": int(rng.integers(0, 2**31))})
    for i in range(168 if q else 2520):
        out.append({"family": "pmap", "sub": int(rng.integers(0, 2**31)), "k": i})
    # interleave so shards get a mix
    order = np.random.default_rng([seed, 21]).permutation(len(out))
    return [out[i] for i in order]


def install():
    probe.enable_recall("C20.recall", every=3, only=("isplit", "splitarray"))
    for p in ("esutil.algorithm:quicksort", "esutil.algorithm:quicksort_keyvalue", "esutil.algorithm:isplit",
              "esutil.numpy_util:splitarray", "esutil.pbar:pbar", "esutil.pbar:prange", "esutil.pbar:pmap"):
        inplace = (lambda a, k: ("*",)) if "quicksort" in p else None
        probe.instrument(p, [], inplace=inplace)
    import esutil.pbar as pb
    pb.PBar = pb.pbar


# ---------------------------------------------------------------------------------------------------------------
# sorting

def sort_inputs(rng):
    # (up to 900: with the pivot at the end, ordered and heavily tied inputs recurse once per element, and the default
    # interpreter limit of 1000 frames is the deepest the unchanged code can go)
    n = int(rng.choice([0, 1, 2, 3, 5, 17, 64, 200, 400, 520, 700, 900], p=[.05, .05, .1, .1, .1, .2, .15, .1, .06, .03, .03, .03]))
    kind = ["int-ties", "int", "float", "str", "bool-like", "typed"][int(rng.integers(0, 6))]
    if kind == "typed":
        # arrays of a fixed-width integer or float32 type, using the whole range of the type (ends included)
        t = str(rng.choice(["u1", "u2", "u4", "u8", "i1", "i2", "i4", "i8", "f4"]))
        kind = "typed:" + t
        if t == "f4":
            v = np.float32(rng.normal(size=n) * 10.0 ** rng.integers(-3, 4)).tolist()
        else:
            ii = np.iinfo(t)
            wide = rng.random() < .6
            v = [int(x) for x in (rng.integers(ii.min, ii.max, size=n, dtype=t, endpoint=True) if wide else
                                  rng.integers(max(ii.min, -5), min(ii.max, 40), size=n))]
            if n > 2 and wide:
                v[0], v[1] = int(ii.max), int(ii.min)
    elif kind == "int-ties":
        v = rng.integers(0, max(2, n // 8 + 1), size=n).tolist()
    elif kind == "int":
        v = rng.integers(-10**9, 10**9, size=n).tolist()
    elif kind == "float":
        v = (rng.normal(size=n) * 10.0 ** rng.integers(-3, 4)).tolist()
        if n > 3:
            v[0], v[1], v[2] = 0.0, -0.0, float("inf")
    elif kind == "str":
        v = ["".join(rng.choice(list("abAB0 "), size=int(rng.integers(0, 4)))) for _ in range(n)]
    else:
        v = rng.integers(0, 2, size=n).tolist()
    shape = ["random", "sorted", "reversed", "constant", "organ-pipe", "nearly-sorted", "down-then-up"][int(rng.integers(0, 7))]
    if shape == "sorted":
        v = sorted(v)
    elif shape == "reversed":
        v = sorted(v, reverse=True)
    elif shape == "constant" and n:
        v = [v[0]] * n
    elif shape == "organ-pipe":
        s = sorted(v)
        v = s[::2] + s[1::2][::-1]
    elif shape == "down-then-up" and n > 3:
        srt = sorted(v)
        k = n // 3
        v = srt[:k][::-1] + srt[k:]
    elif shape == "nearly-sorted" and n > 2:
        v = sorted(v)
        i, j = rng.integers(0, n, size=2)
        v[i], v[j] = v[j], v[i]
    return v, kind, shape, n


def run_sort(case):
    from esutil import algorithm
    rng = np.random.default_rng(case["sub"])
    for rep in range(8):
        v, kind, shape, n = sort_inputs(rng)
        container = ["list", "ndarray"][int(rng.integers(0, 2))] if kind != "str" or rng.random() < .5 else "list"
        adt = None
        if kind.startswith("typed:"):
            container, adt = "ndarray", kind.split(":")[1]
        sig = (kind, shape, min(n, 5) if n < 5 else ("small" if n < 64 else "large"), container)
        wit = {"input": repr(v)[:300], "kind": kind, "shape": shape, "n": n, "container": container}
        # ---- quicksort
        data = list(v) if container == "list" else np.array(v, dtype=adt)
        before = list(data.tolist() if container == "ndarray" else data)
        res, e = probe.attempt(algorithm.quicksort, data)
        after = list(data.tolist() if container == "ndarray" else data)
        if e is not None:
            COL.violation("C20.sort", "quicksort raised %s: %s" % (type(e).__name__, str(e)[:120]), wit)
        elif any(after[i] > after[i + 1] for i in range(len(after) - 1)):
            COL.violation("C20.sort", "quicksort: result is not non-decreasing", dict(wit, result=repr(after)[:300]))
        elif collections.Counter(map(repr, after)) != collections.Counter(map(repr, before)):
            COL.violation("C20.sort", "quicksort: result is not a permutation of the input", dict(wit, result=repr(after)[:300]))
        else:
            COL.ok("C20.sort", ("quicksort",) + sig)
        # ---- key/value
        vals = list(range(len(v)))
        rng.shuffle(vals)
        vkind = ["index", "str", "float"][int(rng.integers(0, 3))]
        if vkind == "str":
            vals = ["v%d" % x for x in vals]
        elif vkind == "float":
            vals = [x + 0.5 for x in vals]
        keys = list(v) if container == "list" else np.array(v, dtype=adt)
        dat = list(vals) if (container == "list" or vkind == "str") else np.array(vals)
        kb = list(keys.tolist() if isinstance(keys, np.ndarray) else keys)
        db = list(dat.tolist() if isinstance(dat, np.ndarray) else dat)
        res, e = probe.attempt(algorithm.quicksort_keyvalue, keys, dat)
        ka = list(keys.tolist() if isinstance(keys, np.ndarray) else keys)
        da = list(dat.tolist() if isinstance(dat, np.ndarray) else dat)
        wit2 = dict(wit, values=repr(db)[:200])
        if e is not None:
            COL.violation("C20.sort", "quicksort_keyvalue raised %s: %s" % (type(e).__name__, str(e)[:120]), wit2)
        elif any(ka[i] > ka[i + 1] for i in range(len(ka) - 1)):
            COL.violation("C20.sort", "quicksort_keyvalue: keys are not non-decreasing", dict(wit2, result=repr(ka)[:300]))
        elif collections.Counter((repr(a), repr(b)) for a, b in zip(ka, da)) != collections.Counter((repr(a), repr(b)) for a, b in zip(kb, db)):
            COL.violation("C20.sort", "quicksort_keyvalue: key/value pairs were separated or lost",
                          dict(wit2, keys_after=repr(ka)[:200], values_after=repr(da)[:200]))
        else:
            COL.ok("C20.sort", ("keyvalue", vkind) + sig)
    # ---- bulk: many larger unordered inputs.  A fault tied to one pivot position in one size of range (the pivot being
    # the third smallest of a long range, say) shows in about one large random sort in a hundred, so the mixed inputs
    # above - a few hundred large random ones per run - see it in some runs and not in others.
    for rep in range(40):
        n = int(rng.integers(150, 900))
        style = int(rng.integers(0, 3))
        v = (rng.permutation(n) if style == 0 else rng.integers(0, n * 4, size=n) if style == 1 else rng.integers(0, max(2, n // 3), size=n))
        container = ["list", "ndarray"][int(rng.integers(0, 2))]
        data = v.tolist() if container == "list" else v.copy()
        want = sorted(v.tolist())
        wit = {"input": repr(v.tolist())[:300], "kind": "bulk", "n": n, "container": container, "style": style}
        if rep % 2 == 0:
            res, e = probe.attempt(algorithm.quicksort, data)
            after = list(data.tolist() if container == "ndarray" else data)
            if e is not None:
                COL.violation("C20.sort", "quicksort raised %s: %s" % (type(e).__name__, str(e)[:120]), wit)
            elif after != want:
                COL.violation("C20.sort", "quicksort: result is not the sorted input" if sorted(after) == want else
                              "quicksort: result is not a permutation of the input", dict(wit, result=repr(after)[:300]))
            else:
                COL.ok("C20.sort", ("quicksort", "bulk", style, container))
        else:
            vals = rng.permutation(n)
            pairs = sorted(zip(v.tolist(), vals.tolist()))
            dat = vals.tolist() if container == "list" else vals.copy()
            res, e = probe.attempt(algorithm.quicksort_keyvalue, data, dat)
            ka = list(data.tolist() if container == "ndarray" else data)
            da = list(dat.tolist() if container == "ndarray" else dat)
            if e is not None:
                COL.violation("C20.sort", "quicksort_keyvalue raised %s: %s" % (type(e).__name__, str(e)[:120]), wit)
            elif ka != want:
                COL.violation("C20.sort", "quicksort_keyvalue: keys are not the sorted keys", dict(wit, result=repr(ka)[:300]))
            elif sorted(zip(ka, da)) != pairs:
                COL.violation("C20.sort", "quicksort_keyvalue: key/value pairs were separated or lost",
                              dict(wit, keys_after=repr(ka)[:200], values_after=repr(da)[:200]))
            else:
                COL.ok("C20.sort", ("keyvalue", "bulk", style, container))


# ---------------------------------------------------------------------------------------------------------------
# chunking

def judge_isplit(num, nchunks, subs, wit):
    if not isinstance(subs, np.ndarray) or subs.dtype.names != ("start", "end") or subs.shape != (int(nchunks),):
        return "result is not an array of %d (start, end) records" % nchunks
    st, en = subs["start"].tolist(), subs["end"].tolist()
    if st[0] != 0 or en[-1] != num:
        return "ranges do not run from 0 to num"
    if any(st[i + 1] != en[i] for i in range(len(st) - 1)):
        return "ranges are not contiguous"
    sizes = [e - s for s, e in zip(st, en)]
    if min(sizes) < 0 or max(sizes) - min(sizes) > 1:
        return "sizes %r differ by more than one" % sizes[:12]
    if any(sizes[i] < sizes[i + 1] for i in range(len(sizes) - 1)):
        return "larger chunks do not come first"
    return None


def run_isplit(case):
    from esutil import algorithm
    num = case["num"]
    combos = [(num, nc) for nc in range(1, 61)]
    if num % 40 == 0:
        combos += [(np.int64(num), np.int32(7)), (num * 1000 + 3, 61), (num, 1000), (np.intp(num), 3.0)]
        # row counts beyond 32 bits (the chunks of a file of billions of rows), up to the end of int64
        combos += [(2 ** 31 + num + 5, nc) for nc in (1, 2, 3, 7, 60)] + [(2 ** 31, 1), (2 ** 32 + num, 3), (3 * 10 ** 9 + 1, 4),
                                                                          (6 * 10 ** 9 + num, 7), (2 ** 40 + 3, 11), (2 ** 53 + 1, 5),
                                                                          (2 ** 62 + 7 + num, 60), (2 ** 63 - 1, 7)]
    for n, nc in combos:
        wit = {"num": int(n), "nchunks": float(nc)}
        res, e = probe.attempt(algorithm.isplit, n, nc)
        if e is not None:
            COL.violation("C20.isplit", "isplit(%r, %r) raised %s: %s" % (n, nc, type(e).__name__, str(e)[:100]), wit)
            continue
        bad = judge_isplit(int(n), int(nc), res, wit)
        if bad:
            COL.violation("C20.isplit", "isplit(%r, %r): %s" % (n, nc, bad), dict(wit, result=repr(res)[:300]))
        else:
            COL.ok("C20.isplit", (int(n), int(nc)) if n <= 200 and nc <= 60 else ("big", type(n).__name__))
    if num == 0:
        for nc in (0, -1):
            res, e = probe.attempt(algorithm.isplit, 5, nc)
            if e is None:
                COL.violation("C20.isplit", "isplit(5, %d) was accepted" % nc, {"result": repr(res)[:200]})
            else:
                COL.ok("C20.isplit", ("reject", nc))


def run_splitarray(case):
    from esutil import numpy_util
    rng = np.random.default_rng(case["sub"])
    for rep in range(6):
        n = int(rng.choice([0, 1, 2, 3, 7, 25, 100]))
        kind = ["i8", "f4", "S3", "list", "scalar", "strided", ">i2", "rec"][int(rng.integers(0, 8))]
        if kind == "list":
            arr = rng.integers(0, 100, size=n).tolist()
        elif kind == "scalar":
            arr = 7.5
            n = 1
        elif kind == "strided":
            arr = np.arange(2 * n)[::2]
        elif kind == "S3":
            arr = np.array(["%03d" % i for i in range(n)], dtype="S3")
        elif kind == "rec":
            arr = np.zeros(n, dtype=[("a", "i4"), ("b", "f8")])
            arr["a"] = np.arange(n)
        else:
            arr = rng.integers(0, 1000, size=n).astype(kind)
        ref = np.atleast_1d(np.array(arr) if not isinstance(arr, np.ndarray) else arr)
        for nper in sorted(set(list(range(1, min(n, 12) + 2)) + [n + 1, max(1, n // 2), max(1, n)])):
            wit = {"nper": nper, "n": n, "kind": kind}
            res, e = probe.attempt(numpy_util.splitarray, nper, arr)
            if e is not None:
                COL.violation("C20.splitarray", "splitarray(%d, %s[%d]) raised %s: %s" % (nper, kind, n, type(e).__name__, str(e)[:100]), wit)
                continue
            bad = None
            if not isinstance(res, list):
                bad = "result is not a list"
            elif n == 0:
                bad = None if len(res) == 0 or (len(res) == 1 and len(res[0]) == 0) else "chunks for an empty input"
            else:
                sizes = [len(c) for c in res]
                if any(s != nper for s in sizes[:-1]) or not (1 <= sizes[-1] <= nper):
                    bad = "chunk sizes %r for nper=%d" % (sizes[:10], nper)
                elif len(res) != -(-n // nper):
                    bad = "%d chunks for %d elements" % (len(res), n)
                else:
                    # chunk i must be elements [i*nper, (i+1)*nper) of the input, as stored (np.concatenate would
                    # normalise the byte order, so the chunks are compared one by one)
                    for i, c in enumerate(res):
                        r = ref[i * nper:(i + 1) * nper]
                        if not isinstance(c, np.ndarray) or c.dtype != r.dtype or np.ascontiguousarray(c).tobytes() != np.ascontiguousarray(r).tobytes():
                            bad = "chunk %d is not elements [%d, %d) of the input" % (i, i * nper, (i + 1) * nper)
                            break
            if bad:
                COL.violation("C20.splitarray", "splitarray(%d, %s[%d]): %s" % (nper, kind, n, bad), dict(wit, result=repr(res)[:300]))
            else:
                COL.ok("C20.splitarray", (kind, min(n, 8), "nper>n" if nper > n else "nper=n" if nper == n else "div" if n % nper == 0 else "rem"))


# ---------------------------------------------------------------------------------------------------------------
# progress wrappers

class Source:
    """iterable without len that counts how many items it has handed out"""

    def __init__(self, items):
        self.items = items
        self.produced = 0

    def __iter__(self):
        for x in self.items:
            self.produced += 1
            yield x


class Obj:
    __slots__ = ("i",)

    def __init__(self, i):
        self.i = i


def run_progress(case):
    from esutil import pbar as pb
    rng = np.random.default_rng(case["sub"])
    for rep in range(32):
        n = int(rng.choice([0, 1, 2, 3, 9, 10, 11, 37, 120]))
        ikind = ["list", "tuple", "range", "ndarray", "generator", "source", "dict", "iterator", "source", "source"][int(rng.integers(0, 10))]
        items = [Obj(i) for i in range(n)]
        if n and rng.random() < .25:
            # items that a wrapper might mistake for "nothing": None, 0, '', False, an empty tuple - also in first place
            falsy = [None, 0, "", False, (), 0.0]
            items = [falsy[int(j)] if rng.random() < .5 else items[i] for i, j in enumerate(rng.integers(0, len(falsy), size=n))]
            items[0] = falsy[int(rng.integers(0, len(falsy)))]
        src = None
        if ikind == "list":
            it = items
        elif ikind == "tuple":
            it = tuple(items)
        elif ikind == "range":
            it = range(3, 3 + 2 * n, 2)
            items = list(it)
        elif ikind == "ndarray":
            it = np.arange(n) * 1.5
            items = list(it)
        elif ikind == "generator":
            it = (x for x in items)
        elif ikind == "source":
            src = Source(items)
            it = src
        elif ikind == "dict":
            it = {i: None for i in range(n)}
            items = list(range(n))
        else:
            it = iter(items)
        has_len = ikind in ("list", "tuple", "range", "ndarray", "dict")
        simple = bool(rng.random() < .35)
        tmode = ["none", "exact", "over", "under"][int(rng.integers(0, 4))]
        if tmode == "under" and n < 2:
            tmode = "exact"
        if simple and not has_len and tmode == "none":
            tmode = "exact"
        total = {"none": None, "exact": n, "over": n + int(rng.integers(1, 9)), "under": max(1, n - int(rng.integers(1, max(2, n))))}[tmode]
        if total == 0 and n > 0:
            total = n
        kw = {}
        if total is not None:
            kw["total"] = total
        if simple:
            kw["simple"] = True
        if rng.random() < .5:
            kw["desc"] = ["x", "a long description: 100%", ""][int(rng.integers(0, 3))]
        if rng.random() < .5:
            kw["leave"] = bool(rng.integers(0, 2))
        if rng.random() < .6:
            kw["mininterval"] = [0, 0.5, 1e-9][int(rng.integers(0, 3))]
        if rng.random() < .5:
            kw["miniters"] = [1, 2, 3, 5, 1000][int(rng.integers(0, 5))]
        if rng.random() < .4:
            kw["n_bars"] = [1, 5, 20, 80][int(rng.integers(0, 4))]
        out = io.StringIO()
        kw["file"] = out
        fn_name = ["pbar", "PBar", "prange"][int(rng.integers(0, 3))]
        if fn_name == "prange":
            ra = [(n,), (2, 2 + n), (0, 3 * n, 3), (n, 0, -1)][int(rng.integers(0, 4))]
            items = list(range(*ra))
            n = len(items)
            ikind, has_len, src = "range", True, None
            if "total" in kw:
                kw["total"] = {"exact": n, "over": n + 3, "under": max(1, n - 1), "none": n}[tmode]
                if kw["total"] == 0 or (simple and n == 0):
                    kw.pop("total")
            call = lambda: pb.prange(*ra, **kw)            # noqa: E731
        else:
            call = lambda: getattr(pb, fn_name)(it, **kw)  # noqa: E731
        opts = tuple(sorted((k, (v if not isinstance(v, str) else bool(v))) for k, v in kw.items() if k not in ("file", "total")))
        sig = (fn_name, ikind, min(n, 3), tmode, opts)
        wit = {"fn": fn_name, "iterable": ikind, "n": n, "kw": {k: v for k, v in kw.items() if k != "file"}}
        got = []
        bad = None
        try:
            w = call()
            itw = iter(w)
            k = 0
            while True:
                try:
                    x = next(itw)
                except StopIteration:
                    break
                got.append(x)
                k += 1
                if src is not None and src.produced != k:
                    bad = "not lazy: after %d items were taken the source had produced %d" % (k, src.produced)
                    break
                if k > n + 5:
                    bad = "yields more items than the iterable holds"
                    break
        except Exception as e:
            bad = "raised %s: %s" % (type(e).__name__, str(e)[:120])
        if bad is None:
            if len(got) != len(items):
                bad = "yielded %d items, the iterable holds %d" % (len(got), len(items))
            elif any((a is not b) and not (a == b and type(a) is type(b)) for a, b in zip(got, items)):
                bad = "yielded items differ from the iterable's (order or identity)"
            elif ikind in ("list", "tuple", "generator", "source", "iterator") and any(a is not b for a, b in zip(got, items)):
                bad = "yielded objects are not the iterable's own objects"
        if bad:
            key = None
            if "TypeError" in bad and not has_len and "total" not in kw:
                key = "progress/length-less-iterable-without-total-raises"
            COL.violation("C20.progress", "%s over %s(%d) %r: %s" % (fn_name, ikind, n, wit["kw"], bad), dict(wit, text=out.getvalue()[-200:]), key=key)
        else:
            COL.ok("C20.progress", sig)
            COL.info["progress_text_bytes"] = COL.info.get("progress_text_bytes", 0) + len(out.getvalue())


# ---------------------------------------------------------------------------------------------------------------
# parallel map

def _latency(x):
    """0-15 ms derived from the item; small items (submitted first) are often the slowest"""
    h = int(hashlib.md5(repr(x).encode()).hexdigest()[:6], 16)
    base = (h % 1000) / 1000.0 * 0.006
    try:
        early = 0.009 if float(x) < 8 else 0.0
    except Exception:
        early = 0.0
    return base + early


def slow_task(x):
    t0 = time.monotonic()
    time.sleep(_latency(x))
    y = task_value(x)
    d = os.environ.get("VERIF_C20_TRACE")
    if d:
        with open(os.path.join(d, "trace_%d.jsonl" % os.getpid()), "a") as f:
            f.write(json.dumps([repr(x), os.getpid(), t0, time.monotonic()]) + "\n")
    return y


def task_value(x):
    if x is None:
        return None             # (a task whose result is None, also for the first item)
    if isinstance(x, (int, float, np.integer, np.floating)):
        return (x * x + 1, str(x))
    return (x, len(x))


def fast_task(x):
    return task_value(x)


def run_pmap(case):
    from esutil import pbar as pb
    rng = np.random.default_rng(case["sub"])
    k = case["k"]
    n = int([0, 1, 2, 5, 13, 30, 60][k % 7])
    nproc = int([1, 2, 3, 4, 8, 5][(k // 7) % 6])
    chunksize = int(rng.choice(sorted(set([1, 1, 2, 3, max(1, n // 2), max(1, n), n + 1]))))
    ikind = ["list", "range", "generator", "tuple-str", "ndarray"][int(rng.integers(0, 5))]
    if ikind == "list":
        items = rng.integers(0, 50, size=n).tolist()
        it = items
    elif ikind == "range":
        it = range(n)
        items = list(it)
    elif ikind == "generator":
        items = list(range(n)) if rng.random() < .5 else [None if i % 2 == 0 else i for i in range(n)]
        it = (x for x in items)
    elif ikind == "tuple-str":
        items = ["s%d" % i * (1 + i % 3) for i in range(n)]
        it = tuple(items)
    else:
        it = np.arange(n) * 0.5
        items = list(it)
    kw = {"file": io.StringIO()}
    if rng.random() < .5:
        kw["total"] = n if n else None
        if kw["total"] is None:
            kw.pop("total")
    if rng.random() < .25 and "total" in kw:
        kw["simple"] = True
    if rng.random() < .4:
        kw["desc"] = "pmap"
    if rng.random() < .4:
        kw["mininterval"] = 0
    slow = rng.random() < .8
    fn = slow_task if slow else fast_task
    d = os.path.join(os.environ.get("VERIF_CASEDIR", "."), "c20trace_%d" % case["_i"])
    os.makedirs(d, exist_ok=True)
    os.environ["VERIF_C20_TRACE"] = d
    expect = list(map(task_value, items))
    wit = {"n": n, "nproc": nproc, "chunksize": chunksize, "iterable": ikind, "kw": {k2: v for k2, v in kw.items() if k2 != "file"},
           "slow": bool(slow)}
    try:
        res, e = probe.attempt(pb.pmap, fn, it, chunksize=chunksize, nproc=nproc, **kw)
    finally:
        os.environ.pop("VERIF_C20_TRACE", None)
    trace = []
    for f in os.listdir(d):
        for ln in open(os.path.join(d, f)):
            trace.append(json.loads(ln))
        os.unlink(os.path.join(d, f))
    os.rmdir(d)
    sig = (n if n < 3 else "n>2", nproc, "cs1" if chunksize == 1 else "cs>n" if chunksize > n else "cs", ikind,
           tuple(sorted(k2 for k2 in kw if k2 != "file")))
    if e is not None:
        key = None
        if isinstance(e, TypeError) and "total" not in kw:
            key = "progress/length-less-iterable-without-total-raises"
        COL.violation("C20.pmap", "pmap raised %s: %s" % (type(e).__name__, str(e)[:120]), wit, key=key)
        return
    same = isinstance(res, list) and len(res) == len(expect) and all(_eq(a, b) for a, b in zip(res, expect))
    if not same:
        COL.violation("C20.pmap", "pmap result differs from list(map(fn, items))", dict(wit, got=repr(res)[:300], expected=repr(expect)[:300]))
        return
    # what the schedule looked like
    inv = 0
    order_hash = None
    pids = set()
    if slow and trace:
        pos = {}
        for i, x in enumerate(items):
            pos.setdefault(repr(x), []).append(i)
        ends = []
        for r, pid, t0, t1 in sorted(trace, key=lambda t: t[2]):
            lst = pos.get(r)
            if lst:
                ends.append((t1, lst.pop(0)))
            pids.add(pid)
        ends.sort()
        order = [i for _, i in ends]
        inv = sum(1 for a in range(len(order)) for b in range(a + 1, len(order)) if order[a] > order[b])
        order_hash = hashlib.md5(repr(order).encode()).hexdigest()[:10]
        if len(trace) != n:
            COL.violation("C20.pmap", "task function ran %d times for %d items" % (len(trace), n), wit)
            return
    nontrivial = nproc == 1 or n < 2 or inv > 0
    COL.ok("C20.pmap", sig + (("inversions" if inv else "in-order"),) if nontrivial else None)
    I = COL.info
    I["pmap_cases"] = I.get("pmap_cases", 0) + 1
    I["pmap_cases_multiproc"] = I.get("pmap_cases_multiproc", 0) + (1 if nproc > 1 and n > 1 else 0)
    I["pmap_cases_with_inversion"] = I.get("pmap_cases_with_inversion", 0) + (1 if inv else 0)
    I["pmap_inversions_total"] = I.get("pmap_inversions_total", 0) + inv
    I["max_pmap_inversions_in_one_case"] = max(I.get("max_pmap_inversions_in_one_case", 0), inv)
    I["max_pmap_worker_pids_in_one_case"] = max(I.get("max_pmap_worker_pids_in_one_case", 0), len(pids))
    if order_hash and inv:
        I.setdefault("pmap_distinct_completion_orders", [])
        if order_hash not in I["pmap_distinct_completion_orders"] and len(I["pmap_distinct_completion_orders"]) < 200:
            I["pmap_distinct_completion_orders"].append(order_hash)


def _eq(a, b):
    try:
        return bool(a == b) and type(a) is type(b)
    except Exception:
        return False


def run_case(case):
    fam = case["family"]
    {"sort": run_sort, "isplit": run_isplit, "splitarray": run_splitarray, "progress": run_progress, "pmap": run_pmap}[fam](case)


def evidence_extra(info, counts, sigs):
    orders = info.get("pmap_distinct_completion_orders", [])
    return {"pmap_schedules": {"cases": info.get("pmap_cases", 0), "cases_multiproc": info.get("pmap_cases_multiproc", 0),
                               "cases_with_completion_order_inversion": info.get("pmap_cases_with_inversion", 0),
                               "inversions_total": info.get("pmap_inversions_total", 0),
                               "max_inversions_in_one_case": info.get("max_pmap_inversions_in_one_case", 0),
                               "distinct_out_of_order_completion_orders": len(orders),
                               "max_worker_pids_in_one_case": info.get("max_pmap_worker_pids_in_one_case", 0)}}
