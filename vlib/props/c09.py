"""C09 Celestial coordinate conversions are invertible isometries with correct poles."""
import numpy as np

from vlib import gen, probe
from vlib.probe import COL
from vlib.refs import sphere as sp

ID = "C09"
NATIVE = False
RULE = ("seeded point sets {uniform sphere, rings at 90-10^-k deg (k=0..9) around the poles of the source system "
        "and (through the reference matrix) of the target system, lon in {0,360,360-eps}, SDSS node and stripe "
        "poles} driven through all six euler selectors x {J2000,B1950} (named wrappers and euler itself), "
        "eq2sdss/sdss2eq, eq2xyz/xyz2eq (deg/rad, stomp), rotate (uniform and multiples of 90 deg), shiftlon/"
        "shiftra; every call judged on-sky against long-double reference rotations built from the documented pole/"
        "node constants; the driver adds round trips, isometry on point pairs and chained-vs-direct; signature = "
        "(function, selector, epoch, point family, scalar/array, pole-distance decade)")
TRUSTED = ["numpy long double trigonometry",
           "B1950 constants (IAU 1958 galactic pole 192.25,+27.4, node 33.0; obliquity 23.4457889) are not in the file"]
ASSUMPTIONS = ["comparisons are on-sky separations; longitude intervals are closed ([0,360], [-180,180])",
               "tolerances from the statement: 1e-5 deg for the tabulated transforms and rotate, 1e-9 deg for SDSS and unit vectors"]
THOROUGH_ROUNDS = 8      # the thorough tier runs the generator over this many derived seeds
CASE_TIMEOUT = 600
REQUIRED = {"quick": {"C09.euler": 4000, "C09.sdss": 1000, "C09.xyz": 700, "C09.rotate": 350, "C09.shiftlon": 2000,
                      "C09.relations": 6000},
            "thorough": {"C09.euler": 60000, "C09.sdss": 15000, "C09.xyz": 10000, "C09.rotate": 5000, "C09.shiftlon": 30000,
                         "C09.relations": 90000}}
LD = sp.LD
FAMS = ["euler-uniform", "euler-srcpole", "euler-tgtpole", "euler-seam", "sdss", "xyz", "rotate", "shiftlon"]
NAMED = {1: "eq2gal", 2: "gal2eq", 3: "eq2ec", 4: "ec2eq", 5: "ec2gal", 6: "gal2ec"}
INV = {1: 2, 2: 1, 3: 4, 4: 3, 5: 6, 6: 5}


def cases(seed, tier):
    n = 3200 if tier == "quick" else 48000
    rng = np.random.default_rng([seed, 9])
    for i in range(n):
        yield {"family": FAMS[i % 8], "sub": int(rng.integers(0, 2**31))}
    for i in range(2 if tier == "quick" else 10):
        yield {"family": "big", "sub": int(rng.integers(0, 2**31)), "first": i == 0, "cap": 2 ** 21 + 1 if tier == "quick" else 5 * 10 ** 6 + 3}


def ring(rng, n, pole_sign=None):
    """points at 90-10^-k deg from +-z, k = 0..9 (and exactly at the pole)"""
    k = rng.integers(0, 10, size=n)
    lat = 90.0 - 10.0 ** (-k.astype("f8"))
    lat[rng.random(n) < .1] = 90.0
    sgn = rng.choice([-1.0, 1.0], size=n) if pole_sign is None else pole_sign
    return rng.uniform(0, 360, size=n), lat * sgn


def in_range(lon, lat, lon_lo=0.0, lon_hi=360.0):
    return bool(np.all(np.isfinite(lon)) and np.all(np.isfinite(lat)) and np.all((lon >= lon_lo) & (lon <= lon_hi))
                and np.all((lat >= -90) & (lat <= 90)))


def _poledec(lat):
    d = 90 - np.abs(np.asarray(lat, dtype="f8"))
    return int(np.clip(np.floor(np.log10(max(float(d.min()), 1e-10))), -10, 2))


def _o_euler(call):
    ai, bi, select = call.arg(0, "ai"), call.arg(1, "bi"), call.arg(2, "select")
    b1950 = bool(call.arg(3, "b1950", False))
    dtype = call.arg(4, "dtype", "f8")
    fam = (COL.case or {}).get("family", "suite")
    wit = {"select": select, "b1950": b1950, "dtype": str(dtype), "lon": np.atleast_1d(np.asarray(ai, dtype="f8"))[:4],
           "lat": np.atleast_1d(np.asarray(bi, dtype="f8"))[:4]}
    if call.exc is not None:
        COL.violation("C09.euler", "euler(select=%r) raised %r" % (select, call.exc), wit)
        return
    ao, bo = call.result
    if not in_range(ao, bo):
        i = int(np.nonzero(~(np.isfinite(ao) & np.isfinite(bo) & (ao >= 0) & (ao <= 360) & (np.abs(bo) <= 90)))[0][0])
        key = "euler/latitude-from-unnormalised-arcsin" if not np.isfinite(bo[i]) else None
        wit["in"] = [float(np.atleast_1d(ai)[i]), float(np.atleast_1d(bi)[i])]
        COL.violation("C09.euler", "euler(select=%d,b1950=%r): non-finite or out-of-range output (%r, %r)" % (
            select, b1950, float(ao[i]), float(bo[i])), wit, key=key)
        return
    if np.dtype(dtype) != np.dtype("f8"):
        COL.ok("C09.euler", ("euler-f4", select, b1950, fam))
        return
    vin = sp.unit(ai, bi)
    vexp = sp.euler_matrix(select, b1950) @ vin
    err = sp.sep_vec(sp.unit(ao, bo), vexp)
    if np.all(err <= 1e-5):
        COL.ok("C09.euler", ("euler", select, b1950, fam, np.ndim(ai) == 0, _poledec(bo)))
        COL.info["max_err_euler_deg"] = max(COL.info.get("max_err_euler_deg", 0.0), float(err.max()))
    else:
        i = int(np.argmax(err))
        elon, elat = sp.lonlat(vexp)
        key = "euler/latitude-from-unnormalised-arcsin" if (90 - abs(float(elat[i]))) < 0.01 else None
        wit["in"] = [float(np.atleast_1d(ai)[i]), float(np.atleast_1d(bi)[i])]
        COL.violation("C09.euler", "euler(select=%d,b1950=%r): output (%r,%r) is %.3g deg from the reference rotation (%r,%r)" % (
            select, b1950, float(ao[i]), float(bo[i]), float(err[i]), float(elon[i]), float(elat[i])), wit, key=key)


def _o_eq2sdss(call):
    ra, dec = call.arg(0, "ra_in"), call.arg(1, "dec_in")
    wit = {"ra": np.atleast_1d(np.asarray(ra, dtype="f8"))[:4], "dec": np.atleast_1d(np.asarray(dec, dtype="f8"))[:4]}
    if call.exc is not None:
        COL.violation("C09.sdss", "eq2sdss raised %r" % call.exc, wit)
        return
    lam, eta = call.result
    if not in_range(eta, lam, -180.0, 180.0):
        COL.violation("C09.sdss", "eq2sdss: non-finite or out-of-range output", wit)
        return
    err = sp.sep_vec(sp.sdss_vec_from_survey(lam, eta), sp._node_frame(ra, dec))
    _sdss_verdict("eq2sdss", err, wit, ra, dec, lam)


def _sdss_verdict(fn, err, wit, a, b, latlike):
    if np.all(err <= 1e-9):
        COL.ok("C09.sdss", (fn, (COL.case or {}).get("family"), np.ndim(a) == 0, _poledec(latlike)))
        COL.info["max_err_sdss_deg"] = max(COL.info.get("max_err_sdss_deg", 0.0), float(err.max()))
    else:
        i = int(np.argmax(err))
        wit["in"] = [float(np.atleast_1d(a)[i]), float(np.atleast_1d(b)[i])]
        key = "sdss-xyz/arcsin-latitude-near-pole" if float(err[i]) < 1e-5 else None
        COL.violation("C09.sdss", "%s: output is %.3g deg from the reference (node 95, eta pole 32.5)" % (fn, float(err[i])), wit, key=key)


def _o_sdss2eq(call):
    lam, eta = call.arg(0, "clambda_in"), call.arg(1, "ceta_in")
    wit = {"clambda": np.atleast_1d(np.asarray(lam, dtype="f8"))[:4], "ceta": np.atleast_1d(np.asarray(eta, dtype="f8"))[:4]}
    if call.exc is not None:
        COL.violation("C09.sdss", "sdss2eq raised %r" % call.exc, wit)
        return
    ra, dec = call.result
    if not in_range(ra, dec):
        COL.violation("C09.sdss", "sdss2eq: non-finite or out-of-range output", wit)
        return
    err = sp.sep_vec(sp._node_frame(ra, dec), sp.sdss_vec_from_survey(lam, eta))
    _sdss_verdict("sdss2eq", err, wit, lam, eta, dec)


def _o_eq2xyz(call):
    if call.depth > 0:
        return
    ra, dec = call.arg(0, "ra"), call.arg(1, "dec")
    units, stomp = call.arg(3, "units", "deg"), call.arg(4, "stomp", False)
    wit = {"ra": np.atleast_1d(np.asarray(ra, dtype="f8"))[:4], "dec": np.atleast_1d(np.asarray(dec, dtype="f8"))[:4],
           "units": units, "stomp": stomp}
    if call.exc is not None:
        COL.violation("C09.xyz", "eq2xyz raised %r" % call.exc, wit)
        return
    v = np.array([np.asarray(c, dtype=LD) for c in call.result])
    if np.dtype(call.arg(2, "dtype", "f8")) != np.dtype("f8"):
        return
    norm = np.sqrt((v * v).sum(axis=0))
    rad = np.asarray(ra, dtype="f8"), np.asarray(dec, dtype="f8")
    exp = sp.unit_rad(*rad) if units == "rad" else sp.unit(*rad)
    if stomp:
        exp = sp.rz(-sp.SDSS_NODE) @ exp
    err = sp.sep_vec(v, exp)
    if np.all(np.abs(norm - 1) <= 1e-14) and np.all(err <= 1e-9):
        COL.ok("C09.xyz", ("eq2xyz", units, bool(stomp), np.ndim(ra) == 0, (COL.case or {}).get("family")))
    else:
        COL.violation("C09.xyz", "eq2xyz: |v|-1 = %.3g, %.3g deg from the reference vector" % (
            float(np.abs(norm - 1).max()), float(err.max())), wit)


def _o_xyz2eq(call):
    if call.depth > 0:
        return
    x, y, z = (np.atleast_1d(np.asarray(call.arg(i, n), dtype="f8")) for i, n in enumerate(("xin", "yin", "zin")))
    units, stomp = call.arg(3, "units", "deg"), call.arg(4, "stomp", False)
    wit = {"x": x[:4], "y": y[:4], "z": z[:4], "units": units, "stomp": stomp}
    if call.exc is not None:
        COL.violation("C09.xyz", "xyz2eq raised %r" % call.exc, wit)
        return
    ra, dec = call.result
    f = sp.R2D if units == "rad" else 1
    rad_, decd = np.asarray(ra, dtype=LD) * f, np.asarray(dec, dtype=LD) * f
    if not in_range(np.asarray(rad_, dtype="f8"), np.asarray(decd, dtype="f8"), 0.0, 360.0 * (1 + 1e-15)):
        key = "xyz2eq/radians-bounded-with-360" if units == "rad" and np.all(np.isfinite(np.asarray(ra, dtype="f8"))) else None
        COL.violation("C09.xyz", "xyz2eq: non-finite or out-of-range output ra=%r dec=%r" % (np.asarray(ra)[:3], np.asarray(dec)[:3]), wit, key=key)
        return
    vin = np.array([x, y, z]).astype(LD)
    if stomp:
        vin = sp.rz(sp.SDSS_NODE) @ vin
    vout = sp.unit_rad(ra, dec) if units == "rad" else sp.unit(ra, dec)
    err = sp.sep_vec(vout, vin)
    if np.all(err <= 1e-9):
        COL.ok("C09.xyz", ("xyz2eq", units, bool(stomp), (COL.case or {}).get("family"), _poledec(np.asarray(decd, dtype="f8"))))
        COL.info["max_err_xyz2eq_deg"] = max(COL.info.get("max_err_xyz2eq_deg", 0.0), float(err.max()))
    else:
        i = int(np.argmax(err))
        key = "sdss-xyz/arcsin-latitude-near-pole" if float(err[i]) < 1e-5 else None
        wit["in"] = [float(x[i]), float(y[i]), float(z[i])]
        COL.violation("C09.xyz", "xyz2eq: direction of the output is %.3g deg from the input vector" % float(err[i]), wit, key=key)


def _o_shiftlon(call):
    if call.depth > 0 and call.label == "shiftlon":
        return
    lon = np.atleast_1d(np.asarray(call.arg(0, "lon_input" if call.label == "shiftlon" else "ra"), dtype="f8"))
    shift, wrap = call.arg(1, "shift"), call.arg(2, "wrap", True)
    wit = {"lon": lon[:5], "shift": shift, "wrap": wrap}
    if call.exc is not None:
        COL.violation("C09.shiftlon", "%s raised %r" % (call.label, call.exc), wit)
        return
    r = np.atleast_1d(np.asarray(call.result, dtype="f8"))
    if shift is not None:
        lo, hi, sh = 0.0, 360.0, float(shift)
    elif wrap:
        lo, hi, sh = -180.0, 180.0, 0.0
    else:
        lo, hi, sh = 0.0, 360.0, 0.0
    d = (r.astype(LD) - (lon.astype(LD) - LD(sh))) / 360
    congr = np.abs(d - np.rint(d)) * 360 <= 1e-9
    okr = (r >= lo) & (r <= hi) & np.isfinite(r)
    if r.shape == lon.shape and np.all(congr) and np.all(okr):
        COL.ok("C09.shiftlon", (call.label, shift is None, bool(wrap), None if shift is None else (shift < 0, abs(shift) > 360),
                                lon.size == 1))
    else:
        i = int(np.nonzero(~(congr & okr))[0][0]) if r.shape == lon.shape else 0
        COL.violation("C09.shiftlon", "%s(%r, shift=%r, wrap=%r) = %r: outside [%g,%g] or not congruent to lon-shift mod 360" % (
            call.label, float(lon[i]), shift, wrap, float(r[i]) if r.size > i else None, lo, hi), wit)


def install():
    probe.enable_argflip({n: None for n in ("eq2gal", "gal2eq", "eq2ec", "ec2eq", "ec2gal", "gal2ec", "eq2sdss", "sdss2eq", "eq2xyz", "xyz2eq", "shiftlon")}, every=4)
    probe.enable_recall("C09.recall", every=5)
    c = "esutil.coords:"
    probe.instrument(c + "euler", [_o_euler])
    for n in NAMED.values():
        probe.instrument(c + n, [])
    probe.instrument(c + "eq2sdss", [_o_eq2sdss])
    probe.instrument(c + "sdss2eq", [_o_sdss2eq])
    probe.instrument(c + "eq2xyz", [_o_eq2xyz])
    probe.instrument(c + "xyz2eq", [_o_xyz2eq])
    probe.instrument(c + "rotate", [])
    probe.instrument(c + "shiftlon", [_o_shiftlon])
    probe.instrument(c + "shiftra", [_o_shiftlon])


def _rel(name, ok, what, wit, extra=()):
    if ok:
        COL.ok("C09.relations", (name,) + tuple(extra))
    else:
        COL.violation("C09.relations", what, wit)


def _f8(v):
    return np.asarray(v, dtype="f8")


def _v(rng, x):
    """the array itself, or (3 in 10) the same values as a non-contiguous float64 view"""
    return gen.maybe_view(rng, np.asarray(x, dtype="f8"), 0.3)


def _again(name, fn, args, first, wit):
    """a conversion is a function of its arguments: the same call on the same argument objects gives the same bits"""
    second, e = probe.attempt(fn, *args)
    if e is not None:
        _rel("repeatable", False, "%s raised %s on the second identical call" % (name, type(e).__name__), wit)
        return
    same = all(np.array_equal(np.asarray(x), np.asarray(y), equal_nan=True) for x, y in zip(first, second))
    _rel("repeatable", same, "%s returns different values when called again on the same argument objects" % name, wit, (name,))


def run_big(case):
    """long arrays through every conversion: element for element the same as short windows of the same arrays"""
    import esutil.coords as co
    rng = np.random.default_rng(case["sub"])
    n = gen.big_size(rng, cap=case.get("cap"), first=case.get("first", False))
    lon = rng.uniform(0, 360, size=n)
    lat = np.degrees(np.arcsin(rng.uniform(-1, 1, size=n)))
    win = gen.windows(rng, n)
    COL.sample({"family": "big", "n": n}, limit=3)
    name = ["eq2gal", "gal2eq", "eq2ec", "ec2eq", "ec2gal", "gal2ec"][int(rng.integers(0, 6))]
    probe.big_vs_windows("C09.relations", name, getattr(co, name), [lon, lat], win, kwargs={"b1950": bool(rng.integers(0, 2))})
    probe.big_vs_windows("C09.relations", "eq2sdss", co.eq2sdss, [lon, lat], win)
    units, stomp = str(rng.choice(["deg", "rad"])), bool(rng.integers(0, 2))
    a_, b_ = (np.radians(lon), np.radians(lat)) if units == "rad" else (lon, lat)
    xyz = probe.big_vs_windows("C09.relations", "eq2xyz", co.eq2xyz, [a_, b_], win, kwargs={"units": units, "stomp": stomp})
    if xyz is not None:
        probe.big_vs_windows("C09.relations", "xyz2eq", co.xyz2eq, [np.asarray(c) for c in xyz], win, kwargs={"units": units, "stomp": stomp})
    probe.big_vs_windows("C09.relations", "shiftlon", co.shiftlon, [lon], win, kwargs={"shift": float(rng.uniform(-400, 400))})
    ang = [float(x) for x in rng.uniform(-180, 180, size=3)]
    probe.big_vs_windows("C09.relations", "rotate", lambda x, y: co.rotate(ang[0], ang[1], ang[2], x, y), [lon, lat], win)


def run_case(case):
    if case["family"] == "big":
        return run_big(case)
    import esutil.coords as co
    rng = np.random.default_rng(case["sub"])
    fam = case["family"]
    n = int(rng.choice([1, 2, 8, 60]))
    if fam.startswith("euler"):
        sel = int(rng.integers(1, 7))
        b1950 = bool(rng.integers(0, 2))
        M = sp.euler_matrix(sel, b1950)
        if fam == "euler-uniform":
            lon, lat = sp.lonlat(sp.unit(*_uniform(rng, n)))
            lon, lat = _f8(lon), _f8(lat)
        elif fam == "euler-srcpole":
            lon, lat = ring(rng, n)
        elif fam == "euler-tgtpole":
            tl, tb = ring(rng, n)
            lon, lat = sp.lonlat(M.T @ sp.unit(tl, tb))
            lon, lat = _f8(lon), np.clip(_f8(lat), -90, 90)
        else:
            lon = rng.choice([0.0, 360.0, 360.0 - 1e-9, 1e-9, 180.0, 90.0, 270.0], size=n)
            lat = np.degrees(np.arcsin(rng.uniform(-1, 1, size=n)))
        scalar = n == 1 and rng.random() < .5
        a, b = (float(lon[0]), float(lat[0])) if scalar else (_v(rng, lon), _v(rng, lat))
        wit = {"select": sel, "b1950": b1950, "lon": lon[:4], "lat": lat[:4], "family": fam}
        COL.sample({"family": fam, "select": sel, "b1950": b1950, "lon": lon[:3].tolist(), "lat": lat[:3].tolist()}, limit=8)
        use_named = rng.random() < .6
        fwd = (lambda x, y: getattr(co, NAMED[sel])(x, y, b1950=b1950)) if use_named else (lambda x, y: co.euler(x, y, sel, b1950=b1950))
        inv = (lambda x, y: getattr(co, NAMED[INV[sel]])(x, y, b1950=b1950)) if use_named else (lambda x, y: co.euler(x, y, INV[sel], b1950=b1950))
        (out, e) = probe.attempt(fwd, a, b)
        if e is not None:
            return
        ol, ob = out
        _again("euler", fwd, (a, b), out, wit)
        if not (np.all(np.isfinite(ol)) and np.all(np.isfinite(ob))):
            return
        back, e = probe.attempt(inv, ol, ob)
        if e is None and np.all(np.isfinite(back[0])) and np.all(np.isfinite(back[1])):
            err = sp.sep(lon, lat, back[0], back[1])
            _rel("roundtrip", np.all(err <= 1e-5), "forward(%d) then inverse moves a point by %.3g deg" % (sel, float(err.max())), wit,
                 (sel, b1950, fam))
        if n >= 2:
            s_in = sp.sep(lon[:-1], lat[:-1], lon[1:], lat[1:])
            s_out = sp.sep(ol[:-1], ob[:-1], ol[1:], ob[1:])
            d = np.abs(s_in - s_out)
            _rel("isometry", np.all(d <= 1e-5), "separation of two points changes by %.3g deg under select=%d" % (float(d.max()), sel), wit,
                 (sel, b1950, fam))
        # chained vs direct
        chain = {1: (3, 5), 2: (6, 4), 5: (4, 1), 6: (2, 3), 3: (1, 6), 4: (5, 2)}[sel]
        mid, e = probe.attempt(co.euler, a, b, chain[0], b1950=b1950)
        if e is None and np.all(np.isfinite(mid[0])) and np.all(np.isfinite(mid[1])):
            end, e = probe.attempt(co.euler, mid[0], mid[1], chain[1], b1950=b1950)
            if e is None and np.all(np.isfinite(end[0])) and np.all(np.isfinite(end[1])):
                err = sp.sep(end[0], end[1], ol, ob)
                _rel("chained", np.all(err <= 1e-5), "chained %r differs from direct select=%d by %.3g deg" % (chain, sel, float(err.max())), wit,
                     (sel, b1950, fam))
        if rng.random() < .2:
            probe.attempt(co.euler, a, b, sel, b1950=b1950, dtype="f4")
        if sel == 5 and not b1950:
            # the docstring's own ecliptic->galactic constants
            verr = sp.sep_vec(sp.ec2gal_documented() @ sp.unit(lon, lat), sp.unit(ol, ob))
            _rel("documented-ec2gal", np.all(verr <= 1e-5), "ec2gal differs from the documented alphaE/deltaE/Eomega rotation by %.3g deg" % float(verr.max()), wit)
        return
    if fam == "sdss":
        mode = int(rng.integers(0, 4))
        if mode == 0:
            ra, dec = _uniform(rng, n)
        elif mode == 1:
            ra, dec = ring(rng, n)       # equatorial poles
        elif mode == 2:                  # survey poles (clambda = +-90): x = -+1 in the node frame
            tl, tb = ring(rng, n)
            v = np.array([np.sin(np.radians(tb)), np.cos(np.radians(tb)) * np.cos(np.radians(tl)), np.cos(np.radians(tb)) * np.sin(np.radians(tl))])
            lon, lat = sp.lonlat(v.astype(LD))
            ra, dec = (_f8(lon) + 95.0) % 360.0, np.clip(_f8(lat), -90, 90)
        else:
            ra = rng.choice([95.0, 275.0, 185.0, 0.0, 360.0, 5.0], size=n)
            dec = rng.choice([0.0, 32.5, -32.5, 57.5, -57.5, 90.0, -90.0], size=n)
        scalar = n == 1 and rng.random() < .5
        ain, bin_ = (float(ra[0]), float(dec[0])) if scalar else (_v(rng, ra), _v(rng, dec))
        out, e = probe.attempt(co.eq2sdss, ain, bin_)
        wit = {"ra": ra[:4], "dec": dec[:4]}
        if e is None and np.all(np.isfinite(out[0])) and np.all(np.isfinite(out[1])):
            _again("eq2sdss", co.eq2sdss, (ain, bin_), out, wit)
            back, e = probe.attempt(co.sdss2eq, out[0], out[1])
            if e is None:
                _again("sdss2eq", co.sdss2eq, (out[0], out[1]), back, wit)
                err = sp.sep(ra, dec, back[0], back[1])
                _rel("roundtrip-sdss", np.all(err <= 1e-9), "eq2sdss then sdss2eq moves a point by %.3g deg" % float(err.max()), wit, (mode,))
            if n >= 2:
                v = sp.sdss_vec_from_survey(out[0], out[1])
                d = np.abs(sp.sep_vec(v[:, :-1], v[:, 1:]) - sp.sep(ra[:-1], dec[:-1], ra[1:], dec[1:]))
                _rel("isometry-sdss", np.all(d <= 1e-9), "eq2sdss changes a separation by %.3g deg" % float(d.max()), wit, (mode,))
        # survey coordinates as input, including the survey poles
        lam = np.clip(np.where(rng.random(n) < .4, ring(rng, n)[1], rng.uniform(-90, 90, size=n)), -90, 90)
        eta = rng.uniform(-180, 180, size=n)
        if rng.random() < .3:
            # the ends of the documented input ranges themselves
            eta = np.where(rng.random(n) < .5, rng.choice([-180.0, 180.0, 0.0, -0.0], size=n), eta)
            lam = np.where(rng.random(n) < .3, rng.choice([-90.0, 90.0, 0.0], size=n), lam)
        probe.attempt(co.sdss2eq, lam, eta)
        return
    if fam == "xyz":
        if rng.random() < .15:
            # the six axis vectors given as integers (scalars, lists, integer arrays): valid unit vectors
            ax = np.array([(1, 0, 0), (0, 1, 0), (-1, 0, 0), (0, -1, 0), (0, 0, 1), (0, 0, -1)])[rng.permutation(6)[: int(rng.integers(1, 7))]]
            u_, st_ = str(rng.choice(["deg", "rad"])), bool(rng.integers(0, 2))
            form_ = int(rng.integers(0, 3))
            if form_ == 0:
                for v in ax:
                    probe.attempt(co.xyz2eq, int(v[0]), int(v[1]), int(v[2]), units=u_, stomp=st_)
            elif form_ == 1:
                probe.attempt(co.xyz2eq, ax[:, 0].tolist(), ax[:, 1].tolist(), ax[:, 2].tolist(), units=u_, stomp=st_)
            else:
                t_ = str(rng.choice(["i8", "i4"]))      # (int16 would make numpy compute in float32)
                probe.attempt(co.xyz2eq, ax[:, 0].astype(t_), ax[:, 1].astype(t_), ax[:, 2].astype(t_), units=u_, stomp=st_)
        mode = int(rng.integers(0, 3))
        ra, dec = _uniform(rng, n) if mode == 0 else ring(rng, n)
        if mode == 2:
            ra = rng.choice([0.0, 360.0, 90.0, 180.0, 270.0, 95.0], size=n)
        units = "deg" if rng.random() < .7 else "rad"
        stomp = bool(rng.random() < .3)
        a, b = (ra, dec) if units == "deg" else (np.radians(ra), np.radians(dec))
        scalar = n == 1 and rng.random() < .5
        if not scalar:
            a, b = _v(rng, a), _v(rng, b)
        v, e = probe.attempt(co.eq2xyz, float(a[0]) if scalar else a, float(b[0]) if scalar else b, units=units, stomp=stomp)
        if e is None and not scalar:
            _again("eq2xyz", lambda x, y: co.eq2xyz(x, y, units=units, stomp=stomp), (a, b), v, {"units": units, "stomp": stomp})
        if e is None:
            back, e = probe.attempt(co.xyz2eq, v[0], v[1], v[2], units=units, stomp=stomp)
            if e is None:
                bl, bb = (back[0], back[1]) if units == "deg" else (np.degrees(back[0]), np.degrees(back[1]))
                err = sp.sep(ra, dec, bl, bb)
                _rel("roundtrip-xyz", np.all(err <= 1e-9), "eq2xyz then xyz2eq moves a point by %.3g deg" % float(err.max()),
                     {"ra": ra[:4], "dec": dec[:4], "units": units, "stomp": stomp}, (units, stomp, mode))
        return
    if fam == "rotate":
        ra, dec = _uniform(rng, max(n, 3)) if rng.random() < .6 else ring(rng, max(n, 3))
        if rng.random() < .5:
            ang = rng.uniform(-360, 360, size=3)
        else:
            ang = rng.choice([0.0, 90.0, -90.0, 180.0, 270.0, 360.0], size=3)
        wit = {"angles": ang.tolist(), "ra": ra[:4], "dec": dec[:4]}
        out, e = probe.attempt(co.rotate, ang[0], ang[1], ang[2], ra, dec)
        if e is not None:
            COL.violation("C09.rotate", "rotate raised %r" % e, wit)
            return
        ol, ob = out
        if not in_range(ol, ob):
            COL.violation("C09.rotate", "rotate: non-finite or out-of-range output (%r, %r)" % (ol[:3], ob[:3]), wit)
            return
        d = np.abs(sp.sep(ra[:-1], dec[:-1], ra[1:], dec[1:]) - sp.sep(ol[:-1], ob[:-1], ol[1:], ob[1:]))
        vi, vo = sp.unit(ra[:3], dec[:3]), sp.unit(ol[:3], ob[:3])
        det_i = np.linalg.det(vi.astype("f8"))
        det_o = np.linalg.det(vo.astype("f8"))
        orient = abs(det_i) < 1e-3 or np.sign(det_i) == np.sign(det_o)
        if np.all(d <= 1e-5) and orient:
            COL.ok("C09.rotate", ("rotate", tuple(np.sign(ang).tolist()), _poledec(ob)))
        else:
            COL.violation("C09.rotate", "rotate is not a proper isometry: separation change %.3g deg, orientation kept: %r" % (float(d.max()), orient), wit)
        # single-axis rotations are undone by the negated angle; scalars give the same result
        for k in range(3):
            a3 = [0.0, 0.0, 0.0]
            a3[k] = float(ang[k])
            f1, e = probe.attempt(co.rotate, a3[0], a3[1], a3[2], ra, dec)
            if e is not None or not in_range(f1[0], f1[1]):
                COL.violation("C09.rotate", "single-axis rotate failed: %r" % (e,), wit)
                continue
            b1, e = probe.attempt(co.rotate, -a3[0], -a3[1], -a3[2], f1[0], f1[1])
            if e is None:
                err = sp.sep(ra, dec, b1[0], b1[1])
                _rel("rotate-inverse", np.all(err <= 1e-5), "single-axis rotation %r not undone by its inverse (%.3g deg)" % (a3, float(err.max())), wit, (k,))
        # chained conversions agree with the direct one: the Euler rotation is the composition of its three single-axis
        # rotations applied in the order phi, theta, psi (whatever sign convention the routine uses for each axis)
        c1, e1 = probe.attempt(co.rotate, float(ang[0]), 0.0, 0.0, ra, dec)
        if e1 is None:
            c2, e2 = probe.attempt(co.rotate, 0.0, float(ang[1]), 0.0, c1[0], c1[1])
            if e2 is None:
                c3, e3 = probe.attempt(co.rotate, 0.0, 0.0, float(ang[2]), c2[0], c2[1])
                if e3 is None:
                    err = sp.sep(ol, ob, c3[0], c3[1])
                    _rel("rotate-chained", np.all(err <= 1e-5), "rotate(phi, theta, psi) differs from the chain of its single-axis rotations by %.3g deg" % float(err.max()),
                         wit, (tuple((np.asarray(ang) == 0).tolist()),))
        # mixed zero / non-zero angles (a zero angle must not change what the other two do)
        for zi in range(3):
            a0 = [float(x) for x in ang]
            a0[zi] = [0.0, -0.0][int(rng.integers(0, 2))]
            z1, ez = probe.attempt(co.rotate, a0[0], a0[1], a0[2], ra, dec)
            a1 = list(a0)
            a1[zi] = 1e-9
            z2, ez2 = probe.attempt(co.rotate, a1[0], a1[1], a1[2], ra, dec)
            if ez is None and ez2 is None:
                err = sp.sep(z1[0], z1[1], z2[0], z2[1])
                _rel("rotate-zero-angle", np.all(err <= 1e-5), "rotate with angle %d exactly 0 differs from the same call with 1e-9 deg by %.3g deg (angles %r)" % (
                    zi, float(err.max()), a0), wit, (zi,))
        s, e = probe.attempt(co.rotate, ang[0], ang[1], ang[2], float(ra[0]), float(dec[0]))
        if e is None:
            _rel("rotate-scalar", np.ndim(s[0]) == 0 and abs(s[0] - ol[0]) <= 1e-12 and abs(s[1] - ob[0]) <= 1e-12,
                 "rotate scalar result %r differs from array element %r" % (s, (ol[0], ob[0])), wit)
        return
    if fam == "shiftlon":
        lon = rng.uniform(0, 360, size=n)
        lon[rng.random(n) < .3] = rng.choice([0.0, 180.0, 359.99999999, 1e-12, 90.0])
        f = co.shiftlon if rng.random() < .6 else co.shiftra
        arg = float(lon[0]) if (n == 1 and rng.random() < .5) else lon
        probe.attempt(f, arg)
        probe.attempt(f, arg, wrap=False)
        for _ in range(3):
            sh = float(rng.choice([rng.uniform(-360, 360), rng.uniform(-2000, 2000), 0.0, 180.0, -180.0, 360.0, -360.0, 720.0,
                                   float(lon[0]), -float(lon[0])]))
            probe.attempt(f, arg, shift=sh)
            probe.attempt(f, arg, shift=sh, wrap=False)


def _uniform(rng, n):
    return rng.uniform(0, 360, size=n), np.degrees(np.arcsin(rng.uniform(-1, 1, size=n)))
