"""C06 Array matching is sound and complete; de-duplication keeps one per value."""
import collections

import numpy as np

from vlib import gen, probe
from vlib.probe import COL

ID = "C06"
NATIVE = False
RULE = ("seeded pairs of same-dtype arrays (int8..uint64 incl. values near the type limits and above 2^53, floats "
        "with probes outside the first array's range on both sides, byte and unicode strings of mixed lengths) with "
        "none/some/all elements matching, repeats in the second array, scalars, presorted on/off and first arrays "
        "with repeats (must be rejected); de-duplication on arrays whose first element is / is not the minimum, all "
        "equal, all distinct, flags with ties; signature = (function, dtype, size classes, match class, presorted, "
        "repeats in second, probe outside range); non-trivial when either array has more than one element")
TRUSTED = ["python dict / collections.Counter", "numpy element comparison and tolist()"]
ASSUMPTIONS = ["both arrays have the same dtype, or (family match-mixed) the same kind and signedness with different widths (U2/U5, S3/S8, i2/i8, u1/u8, f4/f8) in either direction; signed and unsigned are not mixed; no NaN; no empty input",
               "presorted=True is only passed with a sorted first array"]
THOROUGH_ROUNDS = 2      # the thorough tier runs the generator over this many derived seeds
REQUIRED = {"quick": {"C06.match": 2000, "C06.unique": 500, "C06.rem_dup": 500},
            "thorough": {"C06.match": 50000, "C06.unique": 12000, "C06.rem_dup": 12000}}
FAMS = ["match-int", "match-float", "match-str", "match-scalar", "match-repeat1", "unique", "rem_dup", "match-mixed"]


def cases(seed, tier):
    n = 4000 if tier == "quick" else 96000
    rng = np.random.default_rng([seed, 6])
    for i in range(n):
        yield {"family": FAMS[i % len(FAMS)], "sub": int(rng.integers(0, 2**31))}


def _py(a):
    return np.atleast_1d(np.asarray(a)).tolist()


def _o_match(call):
    if call.depth > 0 and call.label == "match":
        return  # match_multi delegates to match: judge the outer call only
    a1, a2 = call.arg(0, "arr1input"), call.arg(1, "arr2input")
    pres = bool(call.arg(2, "presorted", False))
    l1, l2 = _py(a1), _py(a2)
    wit = {"arr1": l1[:12], "arr2": l2[:12], "n1": len(l1), "n2": len(l2), "presorted": pres,
           "dtype": str(np.asarray(a1).dtype)}
    mon = "C06.match"
    index = {}
    repeated = False
    for i, v in enumerate(l1):
        if v in index:
            repeated = True
        index[v] = i
    if repeated:
        if call.exc is None:
            COL.violation(mon, "first array with repeated values was accepted", wit)
        else:
            COL.ok(mon, ("match", "rejected-repeat", wit["dtype"]))
        return
    if call.exc is not None:
        COL.violation(mon, "%s raised %s: %s" % (call.label, type(call.exc).__name__, str(call.exc)[:200]), wit)
        return
    try:
        i1, i2 = call.result
        i1, i2 = np.asarray(i1), np.asarray(i2)
    except Exception:
        COL.violation(mon, "result is not a pair of index arrays", wit)
        return
    exp2 = [j for j, v in enumerate(l2) if v in index]
    exp1 = [index[l2[j]] for j in exp2]
    if i1.tolist() == exp1 and i2.tolist() == exp2:
        n = len(exp2)
        cls = "none" if n == 0 else ("all" if n == len(l2) else "some")
        lo = min(l1)
        hi = max(l1)
        probe_out = (any(v < lo for v in l2), any(v > hi for v in l2))
        big = np.asarray(a1).dtype.kind in "iu" and any(abs(int(v)) > 2 ** 53 for v in l1)
        sig = (call.label, wit["dtype"][:3], min(len(l1).bit_length(), 8), min(len(l2).bit_length(), 8), cls, pres,
               len(set(l2)) < len(l2), probe_out, big, np.ndim(a1) == 0)
        COL.ok(mon, sig if max(len(l1), len(l2)) > 1 else None)
        return
    got1, got2 = i1.tolist(), i2.tolist()
    if len(got1) != len(got2):
        what = "index arrays of different length"
    elif any(not (0 <= a < len(l1) and 0 <= b < len(l2)) for a, b in zip(got1, got2)):
        what = "index out of range"
    elif any(l1[a] != l2[b] for a, b in zip(got1, got2)):
        what = "returned pair with unequal elements"
    elif sorted(got2) != exp2:
        miss = sorted(set(exp2) - set(got2))[:5]
        extra = [j for j, c in collections.Counter(got2).items() if c > 1][:5]
        what = "second-array elements missing %r / repeated %r" % (miss, extra)
    else:
        what = "pairs not ordered by position in the second array"
    wit["ind1"], wit["ind2"], wit["exp1"], wit["exp2"] = got1[:20], got2[:20], exp1[:20], exp2[:20]
    COL.violation(mon, "%s: %s" % (call.label, what), wit)


def _o_unique(call):
    arr = call.arg(0, "arr")
    values = bool(call.arg(1, "values", False))
    l = _py(arr)
    wit = {"arr": l[:16], "n": len(l), "values": values, "dtype": str(np.asarray(arr).dtype)}
    mon = "C06.unique"
    if call.exc is not None:
        COL.violation(mon, "unique raised %r" % call.exc, wit)
        return
    r = _py(call.result)
    distinct = set(l)
    if values:
        gotvals = r
    else:
        if any(not (0 <= int(i) < len(l)) for i in r):
            COL.violation(mon, "unique returned an out-of-range index", wit)
            return
        gotvals = [l[int(i)] for i in r]
    c = collections.Counter(gotvals)
    if set(c) == distinct and all(v == 1 for v in c.values()):
        sig = ("unique", wit["dtype"][:3], min(len(l).bit_length(), 8), l[0] == min(l), len(distinct) == 1,
               len(distinct) == len(l), values)
        COL.ok(mon, sig if len(l) > 1 else None)
    else:
        key = None
        if l[0] != min(l):
            key = "unique/first-element-not-minimum"
        wit["result"] = r[:20]
        COL.violation(mon, "unique: distinct values missing %r, repeated %r" % (
            sorted(distinct - set(c))[:5], [v for v, k in c.items() if k > 1][:5]), wit, key=key)


def _o_rem_dup(call):
    arr, flag = call.arg(0, "arr"), call.arg(1, "flag")
    values = bool(call.arg(2, "values", False))
    l, f = _py(arr), _py(flag)
    wit = {"arr": l[:16], "flag": f[:16], "n": len(l), "values": values}
    mon = "C06.rem_dup"
    if call.exc is not None:
        COL.violation(mon, "rem_dup raised %r" % call.exc, wit)
        return
    r = call.result
    idx = _py(r[0] if values else r)
    if any(not (0 <= int(i) < len(l)) for i in idx):
        COL.violation(mon, "rem_dup returned an out-of-range index", wit)
        return
    best = {}
    for v, fl in zip(l, f):
        if v not in best or fl > best[v]:
            best[v] = fl
    c = collections.Counter(l[int(i)] for i in idx)
    bad = None
    if set(c) != set(best) or any(k != 1 for k in c.values()):
        bad = "distinct values missing %r, repeated %r" % (sorted(set(best) - set(c))[:5], [v for v, k in c.items() if k > 1][:5])
    elif any(f[int(i)] != best[l[int(i)]] for i in idx):
        i = [int(i) for i in idx if f[int(i)] != best[l[int(i)]]][0]
        bad = "index %d (value %r) carries flag %r, the largest flag of that value is %r" % (i, l[i], f[i], best[l[i]])
    elif values and _py(r[1]) != [l[int(i)] for i in idx]:
        bad = "returned values are not arr[indices]"
    if bad:
        wit["result"] = idx[:20]
        COL.violation(mon, "rem_dup: " + bad, wit)
    else:
        ties = any(sum(1 for v2, f2 in zip(l, f) if v2 == v and f2 == b) > 1 for v, b in list(best.items())[:50])
        sig = ("rem_dup", str(np.asarray(arr).dtype)[:3], min(len(l).bit_length(), 8), len(best) == 1, len(best) == len(l),
               ties, values, l[0] == min(l))
        COL.ok(mon, sig if len(l) > 1 else None)


def install():
    probe.enable_argflip({"match": lambda a, k: not (k.get("presorted") or (len(a) > 2 and a[2])), "unique": None, "rem_dup": None}, every=4)
    probe.enable_recall("C06.recall", every=5)
    m = "esutil.numpy_util:"
    probe.instrument(m + "match", [_o_match])
    probe.instrument(m + "match_multi", [_o_match])
    probe.instrument(m + "unique", [_o_unique])
    probe.instrument(m + "rem_dup", [_o_rem_dup])


INT_TYPES = ["i1", "u1", "i2", "u2", "i4", "u4", "i8", "u8"]


def _distinct_ints(rng, dt, n):
    info = np.iinfo(dt)
    mode = int(rng.integers(0, 4))
    if mode == 0:      # small range
        lo = max(info.min, -50)
        pool = np.arange(lo, min(info.max, lo + max(2 * n, 20)) + 1)
    elif mode == 1:    # near the limits
        k = min(n + 5, 120)
        pool = np.unique(np.concatenate([np.arange(info.min, info.min + k, dtype=object),
                                         np.arange(info.max - k + 1, info.max + 1, dtype=object)]))
    elif mode == 2 and info.bits == 64:   # above 2^53, closely spaced
        base = 2 ** 53 + int(rng.integers(0, 2 ** 9))
        pool = np.arange(base, base + 3 * n + 10, dtype=object)
        if dt == "i8" and rng.random() < .5:
            pool = -pool
    else:
        pool = rng.integers(info.min, info.max, size=3 * n + 10, dtype=dt, endpoint=True)
        pool = np.unique(pool)
    pool = np.array([int(v) for v in pool], dtype=object)
    n = min(n, pool.size)
    pick = rng.choice(pool.size, size=n, replace=False)
    return np.array([int(pool[i]) for i in pick], dtype=dt), np.array([int(v) for v in pool], dtype=dt)


def _second(rng, a1, pool, n2, outside):
    mode = ["none", "some", "all"][int(rng.integers(0, 3))]
    s1 = set(a1.tolist())
    non = np.array([v for v in pool.tolist() if v not in s1] + list(outside), dtype=a1.dtype) if True else None
    if mode == "all" or non.size == 0:
        a2 = rng.choice(a1, size=n2)
    elif mode == "none":
        a2 = rng.choice(non, size=n2)
    else:
        a2 = np.where(rng.random(n2) < .5, rng.choice(a1, size=n2), rng.choice(non, size=n2))
    return a2.astype(a1.dtype)


def run_case(case):
    import esutil.numpy_util as nu
    rng = np.random.default_rng(case["sub"])
    fam = case["family"]
    n1 = int(rng.choice([1, 2, 3, 8, 40, 200, 500], p=[.08, .1, .12, .2, .25, .15, .1]))
    n2 = int(rng.choice([1, 2, 5, 30, 200, 500], p=[.1, .1, .2, .3, .2, .1]))
    if fam in ("match-int", "match-repeat1", "match-scalar"):
        dt = INT_TYPES[int(rng.integers(0, len(INT_TYPES)))]
        a1, pool = _distinct_ints(rng, dt, n1)
        a2 = _second(rng, a1, pool, n2, [])
    elif fam == "match-float":
        dt = "f8" if rng.random() < .7 else "f4"
        pool = np.unique((rng.normal(size=3 * n1 + 10) * 10.0 ** rng.integers(-3, 4)).astype(dt))
        if rng.random() < .3:
            pool = np.unique(np.round(pool, 1))
        a1 = rng.choice(pool, size=min(n1, pool.size), replace=False)
        out = [a1.min() - 1, a1.min() - 1e-3 * abs(a1.min()) - 1e-30, a1.max() + 1, np.nextafter(a1.max(), np.inf)]
        a2 = _second(rng, a1, pool, n2, out if rng.random() < .7 else [])
    elif fam == "match-str":
        kind = "S" if rng.random() < .5 else "U"
        alphabet = list("abcXYZ019 _~")
        words = set()
        for _ in range(3 * n1 + 10):
            L = int(rng.integers(0, 8))
            words.add("".join(rng.choice(alphabet, size=L)))
        if rng.random() < .4:
            # values that differ only by trailing white space (blank, tab, newline): different strings
            for w0 in list(words)[: 6]:
                for ws in (" ", "\t", "\n", "  "):
                    if len(w0) + len(ws) <= 8:
                        words.add(w0 + ws)
        words = sorted(words)
        pool = np.array(words, dtype=kind + "8")
        a1 = rng.choice(pool, size=min(n1, pool.size), replace=False)
        out = np.array(["~~~~~~~~", "", "zzzz"], dtype=kind + "8")
        a2 = _second(rng, a1, pool, n2, [v for v in out.tolist() if v not in set(a1.tolist())] if rng.random() < .7 else [])
    elif fam == "match-mixed":
        # same kind, different widths, either direction: values of the wider array that would collide with the
        # narrower one after truncation / wrap-around / rounding are deliberately present
        mode = int(rng.integers(0, 4))
        n1 = min(n1, 60)
        if mode == 0:
            kind = "U" if rng.random() < .5 else "S"
            alphabet = list("abcde")
            short = sorted(set("".join(rng.choice(alphabet, size=int(rng.integers(1, 3)))) for _ in range(3 * n1 + 4)))
            longer = [w + "".join(rng.choice(alphabet, size=int(rng.integers(1, 4)))) for w in short]
            a1 = rng.choice(np.array(short, dtype=kind + "2"), size=min(n1, len(short)), replace=False)
            a2 = rng.choice(np.array(short + longer + ["zz", ""], dtype=kind + "5"), size=n2)
        elif mode in (1, 2):
            narrow, wide = [("i2", "i8"), ("i4", "i8"), ("u1", "u8"), ("u2", "u4"), ("i1", "i4")][int(rng.integers(0, 5))]
            info = np.iinfo(narrow)
            a1 = rng.choice(np.arange(max(info.min, -300), min(info.max, 300) + 1), size=min(n1, 100), replace=False).astype(narrow)
            span = int(info.max) - int(info.min) + 1
            wrapped = a1.astype(wide)[: max(1, a1.size // 2)] + span * rng.integers(1, 4, size=max(1, a1.size // 2)).astype(wide)
            a2 = rng.choice(np.concatenate([a1.astype(wide), wrapped, np.array([info.max + 1 if info.max < 2**62 else 7], dtype=wide)]), size=n2)
        else:
            a1 = np.unique(np.round(rng.normal(size=n1), 2).astype("f4"))
            rng.shuffle(a1)
            near = a1.astype("f8") * (1 + 2.0 ** -30)            # rounds to the same float32
            dec = np.round(a1.astype("f8"), 2)                    # the decimal the float32 came from
            a2 = rng.choice(np.concatenate([a1.astype("f8"), near, dec]), size=n2)
        if rng.random() < .5:
            # wider array first: it must hold distinct values
            a1, a2 = np.unique(a2), rng.choice(a1, size=n2)
            rng.shuffle(a1)
    if fam.startswith("match"):
        if fam == "match-repeat1" and a1.size >= 1:
            if rng.random() < .5:    # one single repeat, at the very end of the array
                a1 = np.concatenate([a1, a1[int(rng.integers(0, a1.size)):][:1]])
            else:
                a1 = np.concatenate([a1, a1[: max(1, a1.size // 3)]])
                rng.shuffle(a1)
        COL.sample({"family": fam, "dtype": str(a1.dtype), "arr1": a1[:6].tolist(), "arr2": a2[:6].tolist(),
                    "n1": int(a1.size), "n2": int(a2.size)}, limit=7)
        if fam == "match-scalar":
            r = rng.random()
            if r < .4:
                probe.attempt(nu.match, a1[0], a2)
                probe.attempt(nu.match, a1, a2[0])
            else:
                probe.attempt(nu.match, a1[0], a2[0])
                probe.attempt(nu.match, a1[0].item() if a1.dtype.kind != "S" else a1[0], a2)
            return
        probe.attempt(nu.match, a1, a2)
        if a1.ndim == 1 and a2.ndim == 1 and rng.random() < .3:
            # the same request with both arrays as non-contiguous views (judged by the wrapper on its own values)
            probe.attempt(nu.match, gen.as_view(rng, a1)[0], gen.as_view(rng, a2)[0])
        if fam == "match-mixed":
            probe.attempt(nu.match, np.sort(a1), a2, presorted=True)
            return
        if fam != "match-repeat1":
            s1 = np.sort(a1)
            probe.attempt(nu.match, s1, a2, presorted=True)
            probe.attempt(nu.match, s1, a2)
            probe.attempt(nu.match_multi, a1, a2)
        else:
            probe.attempt(nu.match, np.sort(a1), a2, presorted=True)
        return
    # de-duplication helpers
    n = int(rng.choice([1, 2, 3, 6, 30, 200]))
    mode = int(rng.integers(0, 5))
    kind = ["i8", "f8", "S4", "i2", "U3", "i1", "i4", "u2", "u8"][int(rng.integers(0, 9))]
    if mode == 0:
        base = np.arange(n)                        # all distinct
        rng.shuffle(base)
    elif mode == 1:
        base = np.full(n, 3)                        # all equal
    else:
        base = rng.integers(0, max(2, n // 3 + 1), size=n)
    if mode == 3 and n > 1:                         # first element the maximum
        base[0] = base.max() + 1
    if mode == 4 and n > 1:                         # first element the minimum
        base[0] = base.min()
    if kind not in ("S4", "U3", "f8") and rng.random() < .3:
        # the whole range of the integer type: differences of sorted neighbours exceed the type's maximum
        ii = np.iinfo(kind)
        pool = np.array([ii.min, ii.min + 1, ii.min // 2, -1 if ii.min < 0 else 1, 0, 1, ii.max // 2, ii.max - 1, ii.max], dtype=kind)
        arr = rng.choice(pool, size=n)
        if fam == "unique":
            probe.attempt(nu.unique, arr)
            probe.attempt(nu.unique, arr, values=True)
        else:
            flag = rng.integers(0, 4, size=n)
            probe.attempt(nu.rem_dup, arr, flag)
        return
    if kind in ("S4", "U3"):
        arr = np.array(["v%02d" % v for v in base], dtype=kind)
    elif kind == "f8":
        arr = base.astype("f8") * 0.5 - 3
    else:
        arr = base.astype(kind) - 2
    if fam == "unique":
        COL.sample({"family": fam, "arr": arr[:8].tolist()}, limit=8)
        probe.attempt(nu.unique, arr)
        probe.attempt(nu.unique, gen.maybe_view(rng, arr), values=True)
    else:
        fk = int(rng.integers(0, 8))
        if fk == 0:
            flag = rng.normal(size=n)
        elif fk in (1, 2):
            # unsigned flags incl. zero and the type maximum (negation / subtraction tricks wrap around)
            dt = str(rng.choice(["u1", "u2", "u4", "u8"]))
            flag = rng.choice(np.array([0, 0, 1, 2, 3, np.iinfo(dt).max], dtype=dt), size=n)
        elif fk == 3:
            # signed flags incl. the type minimum and maximum
            dt = str(rng.choice(["i1", "i2", "i8"]))
            ii = np.iinfo(dt)
            flag = rng.choice(np.array([ii.min, ii.min + 1, -3, 0, 2, ii.max], dtype=dt), size=n)
        elif fk == 4:
            flag = rng.choice(np.array([-np.inf, -1.5, 0.0, -0.0, 2.5, np.inf]), size=n)
        elif fk == 5:
            flag = rng.integers(0, 2, size=n).astype(bool)
        else:
            flag = rng.integers(0, 4, size=n)
        probe.attempt(nu.rem_dup, arr, flag)
        probe.attempt(nu.rem_dup, gen.maybe_view(rng, arr), gen.maybe_view(rng, np.asarray(flag)), values=True)
