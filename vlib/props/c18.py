"""C18 Weighted moments, clipping, interpolation and cov/cor follow their definitions."""
import numpy as np

from vlib import gen, probe
from vlib.probe import COL

ID = "C18"
NATIVE = False
RULE = ("seeded calls of wmom / wmedian / sigma_clip / interplin / get_stats / cov2cor+cor2cov, every call judged at "
        "the wrapper by a direct long-double recomputation (or, for clipping, by re-running the stated iteration); "
        "signature = (function, input shape class, weight class, option settings, size class, outcome class such as "
        "number of clipping iterations or interpolation region); non-trivial when more than one datum is involved")
TRUSTED = ["numpy long double arithmetic", "numpy.searchsorted"]
ASSUMPTIONS = ["clipping cases with a datum within 1e-12 (relative) of the threshold are skipped",
               "weighted-median cases with a cumulative weight within 1e-12 of half the total are skipped unless weights are integer valued",
               "subsets whose weights sum to zero are not generated"]
THOROUGH_ROUNDS = 15      # the thorough tier runs the generator over this many derived seeds
CASE_TIMEOUT = 600
REQUIRED = {"quick": {"C18.wmom": 600, "C18.wmedian": 300, "C18.sigma_clip": 400, "C18.interplin": 300,
                      "C18.get_stats": 200, "C18.covcor": 150},
            "thorough": {"C18.wmom": 12000, "C18.wmedian": 6000, "C18.sigma_clip": 8000, "C18.interplin": 6000,
                         "C18.get_stats": 4000, "C18.covcor": 3000}}
LD = np.longdouble
FAMS = ["wmom", "wmom-nd", "wmedian", "sigma_clip", "sigma_clip-w", "interplin", "get_stats", "covcor", "clip-exact"]


def cases(seed, tier):
    n = 3800 if tier == "quick" else 64000
    rng = np.random.default_rng([seed, 18])
    for i in range(n):
        yield {"family": FAMS[i % len(FAMS)], "sub": int(rng.integers(0, 2**31))}
    for i in range(1 if tier == "quick" else 6):
        yield {"family": "big", "sub": int(rng.integers(0, 2**31)), "first": i == 0, "cap": 2 ** 21 + 1 if tier == "quick" else 5 * 10 ** 6 + 3}


def close(got, exp, scale, rtol=1e-12):
    got = np.asarray(got, dtype=LD)
    exp = np.asarray(exp, dtype=LD)
    if got.shape != exp.shape:
        return False
    with np.errstate(all="ignore"):
        ok = np.abs(got - exp) <= rtol * np.abs(exp) + rtol * scale
        ok |= (np.isnan(got) & np.isnan(exp))
    return bool(np.all(ok))


# ---- reference formulas ---------------------------------------------------

def ref_wmom(arr, w, inputmean, calcerr):
    a = np.atleast_1d(np.asarray(arr)).astype(LD)
    w = np.atleast_1d(np.asarray(w)).astype(np.float64).astype(LD)
    if a.ndim > 1 and w.ndim == 1:
        w = w[:, None]
    wtot = w.sum(axis=0)
    mean = (w * a).sum(axis=0) / wtot if inputmean is None else np.asarray(inputmean, dtype=LD)
    if calcerr:
        err = np.sqrt((w ** 2 * (a - mean) ** 2).sum(axis=0)) / wtot
    else:
        err = 1 / np.sqrt(wtot)
    sd = np.sqrt((w * (a - mean) ** 2).sum(axis=0) / wtot)
    if a.ndim > 1:
        nd = a.shape[1]
        mean = np.broadcast_to(mean, (nd,))
        err = np.broadcast_to(err, (nd,))
        sd = np.broadcast_to(sd, (nd,))
    else:
        mean, err, sd = (np.reshape(v, ()) if np.size(v) == 1 else v for v in (mean, err, sd))
    return mean, err, sd


def clip_stats(x, w):
    x = x.astype(LD)
    if w is None:
        m = x.mean()
        s = np.sqrt(((x - m) ** 2).mean())
        return m, s, s / np.sqrt(LD(x.size))
    w = w.astype(LD)
    wt = w.sum()
    m = (w * x).sum() / wt
    s = np.sqrt((w * (x - m) ** 2).sum() / wt)
    e = np.sqrt((w ** 2 * (x - m) ** 2).sum()) / wt
    return m, s, e


def _dyadic(fr, maxbits=40):
    d = fr.denominator
    return d & (d - 1) == 0 and abs(fr.numerator).bit_length() <= maxbits and d.bit_length() <= maxbits


def exact_step(x, nsig):
    """True when mean, deviation and threshold of the unweighted subset x are
    exactly representable so that IEEE double evaluation of the stated rule is
    exact (small integer-valued data, dyadic mean, perfect-square variance)."""
    from fractions import Fraction
    from math import isqrt
    if x.size > 4096 or np.any(x != np.rint(x)) or np.abs(x).max() > 2 ** 20:
        return False
    xs = [int(v) for v in x]
    m = Fraction(sum(xs), len(xs))
    if not _dyadic(m):
        return False
    var = sum((Fraction(v) - m) ** 2 for v in xs) / len(xs)
    if not _dyadic(var):
        return False
    a, b = var.numerator, var.denominator
    if isqrt(a) ** 2 != a or isqrt(b) ** 2 != b:
        return False
    return _dyadic(Fraction(float(nsig)), 20)


def clip_model(x, w, nsig, niter):
    """Returns (indices, iterations that discarded something, near_threshold)."""
    idx = np.arange(x.size)
    used = 0
    for _ in range(niter):
        m, s, _e = clip_stats(x[idx], None if w is None else w[idx])
        d = np.abs(x[idx].astype(LD) - m)
        thr = LD(nsig) * s
        near = np.abs(d - thr) <= 1e-12 * (thr + np.abs(m) + np.abs(x[idx]).max())
        if np.any(near) and not (w is None and exact_step(x[idx], nsig)):
            return idx, used, True
        keep = d < thr
        if keep.sum() == 0 or keep.all():
            break
        idx = idx[keep]
        used += 1
        if w is not None and w[idx].sum() == 0:
            return idx, used, True
    return idx, used, False


# ---- oracles --------------------------------------------------------------

def _raised(mon, call, wit=None):
    if call.exc is not None:
        COL.violation(mon, "%s raised %s: %s" % (call.label, type(call.exc).__name__, str(call.exc)[:200]), wit or {})
        return True
    return False


def _o_wmom(call):
    if call.depth > 0:
        return
    arr, w = call.arg(0, "arrin"), call.arg(1, "weights_in")
    im, ce, sd = call.arg(2, "inputmean"), call.arg(3, "calcerr", False), call.arg(4, "sdev", False)
    a = np.atleast_1d(np.asarray(arr))
    wit = {"shape": list(a.shape), "wshape": list(np.shape(w)), "inputmean": im, "calcerr": ce, "sdev": sd,
           "arr": a[:8], "w": np.asarray(w)[:8]}
    if call.exc is not None:
        key = None
        if im is not None and np.ndim(im) == 1 and isinstance(call.exc, TypeError):
            key = "wmom/array-inputmean-raises"
        COL.violation("C18.wmom", "wmom raised %s: %s" % (type(call.exc).__name__, str(call.exc)[:200]), wit, key=key)
        return
    r = call.result
    if len(r) != (3 if sd else 2):
        COL.violation("C18.wmom", "returned %d values" % len(r), wit)
        return
    m, e, s = ref_wmom(arr, w, im, ce)
    S = float(np.abs(a).max()) if a.size else 1.0
    names = ["mean", "err", "sdev"]
    for name, got, exp in zip(names, r, (m, e, s)):
        if name == "mean" and im is not None and np.ndim(exp) == 1:
            got = np.broadcast_to(np.asarray(got), np.shape(exp))   # the supplied mean, scalar or [ndim]
        if not close(got, exp, S):
            COL.violation("C18.wmom", "weighted %s %r differs from definition %r" % (name, np.asarray(got).tolist(), np.asarray(exp, dtype="f8").tolist()), wit)
            return
    wv = np.asarray(w, dtype="f8")
    wc = "equal" if np.ptp(wv) == 0 else ("zeros" if (wv == 0).any() else "spread")
    COL.ok("C18.wmom", ("wmom", a.ndim, np.ndim(w), wc, im is not None, bool(ce), bool(sd), min(int(np.log2(a.shape[0])), 8))
           if a.shape[0] > 1 else None)


def _o_wmedian(call):
    if call.depth > 0:
        return
    arr, w = np.atleast_1d(np.asarray(call.arg(0, "arr_in"))), np.atleast_1d(np.asarray(call.arg(1, "weights_in"))).astype("f8")
    wit = {"arr": arr[:12], "w": w[:12], "n": arr.size}
    if _raised("C18.wmedian", call, wit):
        return
    vals = np.unique(arr)
    W = np.array([w[arr <= v].astype(LD).sum() for v in vals]) if vals.size <= 64 else None
    if W is None:
        o = np.argsort(arr, kind="stable")
        cs = np.cumsum(w[o].astype(LD))
        last = np.r_[np.nonzero(np.diff(arr[o]))[0], arr.size - 1]
        vals, W = arr[o][last], cs[last]
    half = w.astype(LD).sum() / 2
    integer = bool(np.all(w == np.rint(w)) and w.sum() < 2 ** 52)
    if not integer and np.any(np.abs(W - half) <= 1e-12 * np.abs(half)):
        COL.skipped("C18.wmedian", "cumulative weight within rounding of half the total")
        return
    exp = vals[np.nonzero(W >= half)[0][0]]
    if call.result == exp:
        COL.ok("C18.wmedian", ("wmedian", integer, min(int(np.log2(arr.size)), 8), bool(vals.size < arr.size),
                               str(arr.dtype), int(np.nonzero(W >= half)[0][0] * 4 // max(1, vals.size))) if arr.size > 1 else None)
    else:
        COL.violation("C18.wmedian", "weighted median %r, expected %r (smallest sorted value whose cumulative weight reaches half)" % (
            call.result, exp), wit)


def _o_sigma_clip(call):
    if call.depth > 0:
        return
    arr = np.atleast_1d(np.asarray(call.arg(0, "arrin")))
    w = call.arg(1, "weights")
    niter, nsig = call.arg(2, "niter", 4), call.arg(3, "nsig", 4)
    get_err, get_ind = call.arg(4, "get_err", False), call.arg(5, "get_indices", False)
    extra = call.arg(6, "extra")
    wv = None if w is None else np.atleast_1d(np.asarray(w)).astype("f8")
    wit = {"n": arr.size, "niter": niter, "nsig": nsig, "weights": wv is not None, "arr": arr[:16],
           "w": None if wv is None else wv[:16]}
    if _raised("C18.sigma_clip", call, wit):
        return
    r = list(call.result)
    if len(r) != 2 + bool(get_err) + bool(get_ind):
        COL.violation("C18.sigma_clip", "returned %d values" % len(r), wit)
        return
    ind = r[-1] if get_ind else (extra or {}).get("indices")
    if ind is None:
        return
    ind = np.asarray(ind)
    if ind.size == 0 or np.unique(ind).size != ind.size or ind.min() < 0 or ind.max() >= arr.size:
        COL.violation("C18.sigma_clip", "reported subset is empty, repeated or out of range", wit)
        return
    S = float(np.abs(arr).max())
    m, s, e = clip_stats(arr[ind], None if wv is None else wv[ind])
    if not (close(r[0], m, S) and close(r[1], s, S) and (not get_err or close(r[2], e, S))):
        COL.violation("C18.sigma_clip", "reported statistics %r are not those of the reported subset (%r, %r, %r)" % (
            [float(v) for v in r[:2 + bool(get_err)]], float(m), float(s), float(e)), wit)
        return
    midx, used, near = clip_model(arr, wv, nsig, niter)
    if near:
        COL.skipped("C18.sigma_clip", "datum within rounding of the clipping threshold")
        return
    if np.array_equal(np.sort(ind), midx):
        COL.ok("C18.sigma_clip", ("clip", wv is not None, used, int(niter), min(int(np.log2(arr.size)), 8),
                                  round(float(nsig)), (COL.case or {}).get("family")) if arr.size > 1 else None)
    else:
        wit["reported"] = ind[:30]
        wit["expected"] = midx[:30]
        COL.violation("C18.sigma_clip", "surviving subset (%d data) is not the result of the stated iteration (%d data after %d discarding iterations)" % (
            ind.size, midx.size, used), wit)


def _o_interplin(call):
    if call.depth > 0:
        return
    v = np.atleast_1d(np.asarray(call.arg(0, "vin"))).astype(LD)
    x = np.atleast_1d(np.asarray(call.arg(1, "xin"))).astype(LD)
    u = np.atleast_1d(np.asarray(call.arg(2, "uin"))).astype(LD)
    wit = {"x": x[:10].astype("f8"), "v": v[:10].astype("f8"), "u": u[:10].astype("f8"), "n": x.size}
    if _raised("C18.interplin", call, wit):
        return
    j = np.clip(np.searchsorted(x, u, side="right") - 1, 0, x.size - 2)
    slope = (v[j + 1] - v[j]) / (x[j + 1] - x[j])
    exp = v[j] + slope * (u - x[j])
    got = np.asarray(call.result)
    scale = np.abs(v).max() + np.abs(slope * (u - x[j]))
    # arithmetic in the precision of the inputs is legitimate: float32 tables give a float32 result
    rtol = 1e-11 if got.dtype.kind != "f" or got.dtype.itemsize >= 8 else 64 * float(np.finfo(got.dtype).eps)
    if got.shape != exp.shape or not np.all(np.abs(got - exp) <= rtol * (np.abs(exp) + scale)):
        bad = np.nonzero(~(np.abs(got.astype(LD) - exp) <= rtol * (np.abs(exp) + scale)))[0][:3] if got.shape == exp.shape else []
        COL.violation("C18.interplin", "interplin %r differs from piecewise-linear value %r at u=%r" % (
            got[bad].tolist() if len(bad) else got.shape, exp[bad].astype("f8").tolist() if len(bad) else exp.shape,
            u[bad].astype("f8").tolist() if len(bad) else None), wit)
        return
    reg = (bool((u < x[0]).any()), bool((u > x[-1]).any()), bool(np.isin(u, x).any()), bool(((u > x[0]) & (u < x[-1])).any()))
    COL.ok("C18.interplin", ("interplin", reg, min(int(np.log2(x.size)), 8), u.size == 1))


def _o_get_stats(call):
    if call.depth > 0:
        return
    arr = np.atleast_1d(np.asarray(call.arg(0, "arr_in"))).astype("f8")
    w = call.arg(1, "weights")
    kw = call.kwargs
    wit = {"shape": list(arr.shape), "weights": w is not None, "kw": {k: v for k, v in kw.items() if k not in ("weights",)},
           "arr": arr[:10]}
    if _raised("C18.get_stats", call, wit):
        return
    r = call.result
    S = float(np.abs(arr).max())
    if not (close(r["min"], arr.min(axis=0), 0) and close(r["max"], arr.max(axis=0), 0)):
        COL.violation("C18.get_stats", "min/max wrong", wit)
        return
    if "nsig" in kw or "niter" in kw:
        wv = None if w is None else np.asarray(w, dtype="f8")
        midx, used, near = clip_model(arr, wv, kw.get("nsig", 4), kw.get("niter", 4))
        if near:
            COL.skipped("C18.get_stats", "datum within rounding of the clipping threshold")
            return
        m, s, e = clip_stats(arr[midx], None if wv is None else wv[midx])
        mode = "clip"
    elif w is not None:
        m, e, s = ref_wmom(arr, w, kw.get("inputmean"), kw.get("calcerr", True))
        mode = "weights"
    else:
        a = arr.astype(LD)
        m = a.mean(axis=0)
        s = np.sqrt(((a - m) ** 2).mean(axis=0))
        e = s / np.sqrt(LD(arr.shape[0]))
        mode = "plain"
    for name, exp in (("mean", m), ("std", s), ("err", e)):
        if not close(r[name], exp, S):
            COL.violation("C18.get_stats", "%s = %r but the %s definition gives %r" % (
                name, np.asarray(r[name]).tolist(), mode, np.asarray(exp, dtype="f8").tolist()), wit)
            return
    COL.ok("C18.get_stats", ("get_stats", mode, arr.ndim, min(int(np.log2(arr.shape[0])), 8)) if arr.shape[0] > 1 else None)


def install():
    probe.enable_argflip({"wmom": lambda a, k: not isinstance(k.get("inputmean"), np.ndarray), "wmedian": None, "sigma_clip": None}, every=4)
    probe.enable_recall("C18.recall", every=5)
    m = "esutil.stat.util:"
    probe.instrument(m + "wmom", [_o_wmom], also=["esutil.stat"])
    probe.instrument(m + "wmedian", [_o_wmedian], also=["esutil.stat"])
    probe.instrument(m + "sigma_clip", [_o_sigma_clip], also=["esutil.stat"])
    probe.instrument(m + "interplin", [_o_interplin], also=["esutil.stat"])
    probe.instrument(m + "get_stats", [_o_get_stats], also=["esutil.stat"])
    probe.instrument(m + "cov2cor", [], also=["esutil.stat"])
    probe.instrument(m + "cor2cov", [], also=["esutil.stat"])


def _weights(rng, n):
    w = _weights0(rng, n)
    if rng.random() < .3:
        # the same weights in other units: an exact rescale by a power of two between 2^-200 and 2^200 (fluxes of
        # 1e-17, inverse variances of 1e+30); nothing in the definitions depends on the overall scale
        w = w * 2.0 ** float(rng.integers(-200, 201))
    return w


def _narrow(rng, w):
    """the same kind of weights as a catalogue stores them: float32 / float16 / integer / bool columns (each value is
    exact; the definitions are evaluated on those values).  Returns w itself when no narrow form is usable."""
    if rng.random() >= .25 or w.ndim != 1 or not (w.max() > 0):
        return w
    t = str(rng.choice(["f4", "f4", "f2", "i4", "u1", "u2", "bool"]))
    if t == "f4":
        c = w.astype("f4") if rng.random() < .5 else (w / w.max() * float(rng.choice([1.0, 1e20, 1e-20]))).astype("f4")
    elif t == "f2":
        c = (w / w.max() * float(rng.choice([1.0, 100.0, 6e4]))).astype("f2")     # totals beyond 65504 included
    elif t == "bool":
        c = w >= np.median(w)
    else:
        c = np.rint(w / w.max() * (250 if t == "u1" else 40000)).astype(t)
    cf = c.astype("f8")
    if not np.isfinite(cf).all() or not (cf.sum() > 0) or (cf > 0).sum() < min(2, w.size):
        return w
    COL.info["narrow_weight_inputs"] = COL.info.get("narrow_weight_inputs", 0) + 1
    return c


def _weights0(rng, n):
    mode = int(rng.integers(0, 4))
    if mode == 0:
        return np.full(n, float(rng.choice([1.0, 0.25, 7.0])))
    if mode == 1:
        return 10.0 ** rng.uniform(-6, 6, size=n)
    if mode == 2:
        w = rng.uniform(0.1, 3, size=n)
        if n > 2:
            z = rng.random(n) < .3
            z[int(rng.integers(0, n))] = False
            w[z] = 0.0
        return w
    return rng.integers(1, 6, size=n).astype("f8")


def run_big(case):
    import esutil.stat as st
    rng = np.random.default_rng(case["sub"])
    n = gen.big_size(rng, cap=case.get("cap"), first=case.get("first", False))
    win = gen.windows(rng, n)
    COL.sample({"family": "big", "n": n}, limit=2)
    x = np.cumsum(rng.uniform(0.1, 1.0, size=50))
    v = rng.normal(size=50)
    u = rng.uniform(x[0] - 3, x[-1] + 3, size=n)
    probe.big_vs_windows("C18.interplin", "interplin(long query)", lambda q: st.interplin(v, x, q), [u], win)
    # a long table, short query: the table itself is the long array
    xt = np.cumsum(rng.uniform(0.1, 1.0, size=n))
    vt = rng.normal(size=n)
    q = np.sort(rng.uniform(xt[0], xt[-1], size=200))
    got, e = probe.attempt(st.interplin, vt, xt, q)
    if e is None:
        exp = np.interp(q, xt, vt)
        if np.shape(got) == exp.shape and np.all(np.abs(got - exp) <= 1e-9 * (1 + np.abs(exp))):
            COL.ok("C18.interplin", ("big-table", int(np.log2(n))))
        else:
            COL.violation("C18.interplin", "interplin on a table of %d points differs from piecewise-linear interpolation" % n, {"n": n})
    # moments of a long array: the definition in long double on the whole array is cheap
    a, w = rng.normal(size=n) * 3 + 10, rng.uniform(0.1, 2, size=n)
    probe.attempt(st.wmom, a, w, calcerr=bool(rng.integers(0, 2)), sdev=True)


def run_case(case):
    if case["family"] == "big":
        return run_big(case)
    import esutil.stat as st
    rng = np.random.default_rng(case["sub"])
    fam = case["family"]
    n = int(rng.choice([1, 2, 3, 5, 20, 100, 500, 2000], p=[.05, .1, .1, .15, .25, .2, .1, .05]))
    if fam == "wmom":
        # offsets far larger than the scatter (dates, timestamps, mosaic pixel coordinates): one-pass moment formulas lose
        # the deviation there while the definition does not
        x = rng.normal(size=n) * 10.0 ** rng.integers(-3, 4) + rng.choice([0, 0, 100.0, -1e4, 58849.0, 2458849.5, 1.6e9, -3.2e7])
        if rng.random() < .1:
            x = x.astype("f4")
        if rng.random() < .1:
            x = np.rint(x).astype("i8")
        w = _weights(rng, n)
        kw = {"calcerr": bool(rng.integers(0, 2)), "sdev": bool(rng.integers(0, 2))}
        if rng.random() < .3:
            kw["inputmean"] = float(rng.normal())
        w = _narrow(rng, w)
        COL.sample({"family": fam, "n": n, "kw": kw, "x": x[:5].tolist(), "w": w[:5].tolist()})
        probe.attempt(st.wmom, gen.maybe_view(rng, x), gen.maybe_view(rng, w), **kw)
    elif fam == "wmom-nd":
        d = int(rng.integers(1, 6))
        x = rng.normal(size=(n, d)) * 10.0 ** rng.integers(-2, 3)
        if rng.random() < .3:
            x[:, int(rng.integers(0, d))] += float(rng.choice([58849.0, 2458849.5, 1.6e9]))
        w = _narrow(rng, _weights(rng, n)) if rng.random() < .5 else np.abs(rng.normal(size=(n, d))) + 0.01
        kw = {"calcerr": bool(rng.integers(0, 2)), "sdev": bool(rng.integers(0, 2))}
        r = rng.random()
        if r < .15:
            kw["inputmean"] = float(rng.normal())
        elif r < .3:
            kw["inputmean"] = rng.normal(size=d)
        elif r < .4:
            # whole-number data and a whole-number mean, both in narrow / unsigned integer dtypes (a reference row or a
            # rounded median of the same table), also as a list
            t = str(rng.choice(["u1", "u2", "i2", "i4", "i8"]))
            hi = {"u1": 250, "u2": 60000, "i2": 30000, "i4": 2 * 10 ** 9, "i8": 10 ** 12}[t]
            x = rng.integers(0, hi, size=(n, d)).astype(t)
            im = np.median(x, axis=0).astype(t)
            kw["inputmean"] = im if rng.random() < .6 else im.tolist()
        probe.attempt(st.wmom, x, w, **kw)
    elif fam == "wmedian":
        if rng.random() < .5:
            x = rng.integers(-5, 6, size=n)
        else:
            x = rng.normal(size=n)
        w = _weights(rng, n)
        if w.sum() == 0:
            w[:] = 1
        probe.attempt(st.wmedian, gen.maybe_view(rng, x), gen.maybe_view(rng, w))
    elif fam in ("sigma_clip", "sigma_clip-w"):
        n = max(n, 2) if rng.random() < .9 else 1
        x = rng.normal(size=n) * 10.0 ** rng.integers(-2, 3) + rng.choice([0, 50.0])
        k = int(rng.integers(0, 5))
        for _ in range(min(k, n // 3)):
            x[int(rng.integers(0, n))] += rng.choice([-1, 1]) * 10.0 ** rng.uniform(1, 4)
        w = None
        if fam.endswith("-w"):
            w = _weights(rng, n)
            w[w == 0] = 0.5 if rng.random() < .7 else 0.0
            if w.sum() == 0 or (w > 0).sum() < max(1, n // 2):
                w[:] = 1.0
        kw = {"nsig": float(rng.choice([0.5, 1, 1.5, 2, 3, 4, 6, rng.uniform(0.5, 6)])), "niter": int(rng.integers(0, 11)),
              "get_err": bool(rng.integers(0, 2)), "get_indices": bool(rng.integers(0, 2)), "extra": {}, "silent": True}
        COL.sample({"family": fam, "n": n, "kw": {k2: v for k2, v in kw.items() if k2 != "extra"}, "x": x[:5].tolist()})
        if rng.random() < .1:
            x = [float(v) for v in x]
        probe.attempt(st.sigma_clip, gen.maybe_view(rng, x), weights=gen.maybe_view(rng, w), **kw)
    elif fam == "clip-exact":
        # k zeros plus +-a outliers with k+2j = 2^p and variance a perfect square: data sit exactly ON the threshold
        p = int(rng.integers(3, 7))
        tot = 2 ** p
        j = int(rng.choice([1, 4])) if tot >= 16 else 1
        # var = 2 j a^2 / tot must be a square: 2j/tot = 2^(1-p) j  -> choose a so that it is
        a = 2 ** int(rng.integers(1, 4))
        x = np.zeros(tot)
        x[:j] = a
        x[j:2 * j] = -a
        from fractions import Fraction
        from math import isqrt
        var = Fraction(2 * j * a * a, tot)
        if isqrt(var.numerator) ** 2 != var.numerator or isqrt(var.denominator) ** 2 != var.denominator:
            x = np.zeros(8)
            x[0], x[1] = 2, -2
            var = Fraction(1)
        sdev = Fraction(isqrt(var.numerator), isqrt(var.denominator))
        nsig = float(Fraction(int(a)) / sdev)       # threshold exactly at the outliers
        if rng.random() < .3:
            nsig *= float(rng.choice([0.5, 2.0]))
        x = x + float(rng.integers(-8, 9))
        rng.shuffle(x)
        kw = {"nsig": nsig, "niter": int(rng.integers(1, 5)), "get_indices": True, "extra": {}, "silent": True}
        COL.sample({"family": fam, "x": x[:16].tolist(), "nsig": nsig})
        probe.attempt(st.sigma_clip, gen.maybe_view(rng, x), **kw)
    elif fam == "interplin":
        npt = int(rng.choice([2, 3, 5, 20, 200]))
        if rng.random() < .5:
            x = np.cumsum(rng.uniform(0.01, 2, size=npt)) + rng.normal() * 10
        else:
            x = np.sort(rng.choice(np.arange(-300, 300), size=npt, replace=False)).astype("f8")
        # the abscissae on every scale: a table is as valid in units of 1e-12 as in units of 1e+12 (absolute
        # tolerances inside the routine would show up here); the table stays centred near 0 so that u - x[j] is exact
        if rng.random() < .4:
            sc = 10.0 ** float(rng.integers(-14, 15))
            x = (x - x[0]) * sc
        v = rng.normal(size=npt) * 10.0 ** rng.integers(-2, 3)
        span = x[-1] - x[0]
        m = int(rng.integers(1, 30))
        u = np.concatenate([rng.uniform(x[0], x[-1], size=m), rng.choice(x, size=3),
                            x[0] - rng.uniform(0, 2, size=2) * span, x[-1] + rng.uniform(0, 2, size=2) * span,
                            [x[0], x[-1]]])
        rng.shuffle(u)
        r = rng.random()
        if r < .15:
            u = float(u[0])
        elif r < .3:
            u = u[:int(rng.integers(1, 4))]
        if rng.random() < .25:
            # integer-valued tables and queries in integer and float32 dtypes, unsigned ones included (the values are
            # exactly representable in all of them, so the reference is the same piecewise-linear function)
            top = int(rng.choice([250, 60000]))
            x = np.sort(rng.choice(np.arange(10, top - 10), size=npt, replace=False)).astype("f8")
            v = rng.integers(0, 250, size=npt).astype("f8")
            uu = np.concatenate([rng.integers(0, top, size=8).astype("f8"), rng.choice(x, size=2), [0.0, float(top)]])
            rng.shuffle(uu)
            ints = ["u1", "u2", "u4", "u8", "i2", "i4", "i8", "f4", "f8"] if top == 250 else ["u2", "u4", "u8", "i4", "i8", "f4", "f8"]
            tx, tv, tu = (str(rng.choice(ints)) for _ in range(3))
            x, v, u = x.astype(tx), v.astype(tv), uu.astype(tu)
        COL.sample({"family": fam, "npt": npt, "x": x[:5].tolist(), "u": np.atleast_1d(u)[:5].tolist()})
        probe.attempt(st.interplin, gen.maybe_view(rng, v), gen.maybe_view(rng, x), gen.maybe_view(rng, u) if isinstance(u, np.ndarray) else u)
    elif fam == "get_stats":
        x = rng.normal(size=max(n, 2)) * 10.0 ** rng.integers(-2, 3)
        r = rng.random()
        if r < .3:
            probe.attempt(st.get_stats, x)
        elif r < .45:
            probe.attempt(st.get_stats, rng.normal(size=(max(n, 2), int(rng.integers(1, 4)))))
        elif r < .7:
            w = _weights(rng, x.size)
            if w.sum() == 0:
                w[:] = 1
            w = _narrow(rng, w)
            kw = {}
            if rng.random() < .5:
                kw["calcerr"] = bool(rng.integers(0, 2))
            probe.attempt(st.get_stats, x, weights=w, **kw)
        else:
            x[0] += 1e3 * x.std()
            kw = {"nsig": float(rng.choice([2, 3, 4])), "silent": True}
            if rng.random() < .5:
                kw["niter"] = int(rng.integers(0, 6))
            w = None
            if rng.random() < .4:
                w = rng.uniform(0.5, 2, size=x.size)
            probe.attempt(st.get_stats, x, weights=w, **kw)
    elif fam == "covcor":
        d = int(rng.integers(1, 7))
        A = rng.normal(size=(d, d)) * 10.0 ** rng.uniform(-3, 3, size=(d, 1))
        C = A @ A.T if rng.random() < .5 else (A + A.T)
        C[np.diag_indices(d)] = np.abs(np.diag(C)) + 10.0 ** rng.uniform(-6, 3)
        form = int(rng.integers(0, 6))
        if form in (0, 1):
            # integer-valued symmetric positive-diagonal matrices (count-like), given with an integer or float32 dtype
            B = rng.integers(-9, 10, size=(d, d))
            C = (B @ B.T + np.diag(rng.integers(1, 50, size=d))).astype(["i8", "i4", "f4"][int(rng.integers(0, 3))])
        elif form == 2:
            C = np.asfortranarray(C)
        elif form == 3:
            C = C.astype(">f8")
        Cin = C
        C = np.asarray(C, dtype="f8")
        cor, e1 = probe.attempt(st.cov2cor, Cin)
        wit = {"C": C}
        if e1 is not None:
            COL.violation("C18.covcor", "cov2cor raised %r" % e1, wit)
            return
        dg = np.sqrt(np.diag(C))
        expcor = C / np.outer(dg, dg)
        single = Cin.dtype == np.float32          # single-precision input: single-precision agreement
        if not close(cor, expcor, 1.0, 1e-6 if single else 1e-12) or not close(np.diag(cor), np.ones(d), 0, 1e-6 if single else 1e-14):
            COL.violation("C18.covcor", "cov2cor differs from cov[i,j]/sqrt(cov[i,i] cov[j,j])", wit)
            return
        back, e2 = probe.attempt(st.cor2cov, cor, dg)
        if e2 is not None:
            COL.violation("C18.covcor", "cor2cov raised %r" % e2, wit)
            return
        if np.all(np.abs(back - C) <= (1e-6 if Cin.dtype == np.float32 else 1e-12) * np.maximum(np.outer(dg, dg), np.abs(C))):
            COL.ok("C18.covcor", ("covcor", d, bool((C < 0).any()), str(Cin.dtype), bool(Cin.flags.c_contiguous)))
        else:
            wit["back"] = back
            COL.violation("C18.covcor", "cor2cov(cov2cor(C), sqrt(diag C)) != C", wit)
