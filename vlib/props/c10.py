"""C10 WCS pixel-to-sky matches the FITS convention and sky-to-pixel inverts it."""
import copy

import numpy as np

from vlib import gen, probe
from vlib.probe import COL
from vlib.refs import fitswcs as F
from vlib.refs import sphere as S

ID = "C10"
NATIVE = False
MAX_WORKERS = 16
RULE = ("seeded headers: CD = scale (0.05-2 arcsec/px) x rotation x optional flip; CRVAL over the sphere incl. |dec| up to "
        "90 - 1e-3, ra in {0, 360-eps, eps}; CRPIX inside the image and up to 4 image sizes outside; TAN, TPV (third "
        "order, terms <= 1% of the offset at the far corner, with and without constant terms and the explicit zero "
        "PV?_3), SIP orders 2-4 with and without AP/BP keywords; header as dict, structured array, items()-only "
        "object; positions over the whole image incl. corners and the reference pixel; per object a random walk of "
        "2-12 image2sky(distort) / sky2image(find, distort) / get_jacobian calls with scalar and array arguments; "
        "signature = (projection, call, options, scalar/array, reference-point class)")
TRUSTED = ["numpy long-double arithmetic", "numpy.linalg.lstsq for the best-fit inverse polynomial that defines the find=False allowance"]
ASSUMPTIONS = ["CRVAL2 = +-90 exactly is not generated (LONPOLE default changes there); headers carry a CD matrix",
               "distortion terms are bounded so the map stays monotone over the image",
               "'fitted-polynomial accuracy' = within max(3 x the maximum residual of the best least-squares inverse polynomial "
               "of order forward+1 on a denser grid, floor) for positions inside the image; floor = 1e-6 px with CRPIX inside the "
               "image, 2e-3 px with CRPIX outside (ill-conditioned normal equations: measured noise up to 3.2e-4 px)"]
REQUIRED = {"quick": {"C10.forward": 2500, "C10.refpix": 150, "C10.inverse": 1500, "C10.history": 150, "C10.scalar-array": 300},
            "thorough": {"C10.forward": 50000, "C10.refpix": 3000, "C10.inverse": 30000, "C10.history": 3000, "C10.scalar-array": 6000}}
WATCHDOG = {"quick": 1200, "thorough": 7200}
CASE_TIMEOUT = 600
LD = np.longdouble
# find=False ("to the fitted-polynomial accuracy"): allowed error = max(FIT_ALLOWANCE x r*, floor) where r* is the maximum
# residual over the image of the best least-squares inverse polynomial of the same order, fitted by the reference on a
# 70x70 grid.  Measured on 600 + 9600 random headers: with CRPIX inside the image the routine's own fit is within
# 0.994 r*; with CRPIX up to 4 image sizes outside, its normal equations on unscaled monomials are ill-conditioned and add
# numerical noise of up to 3.2e-4 px when r* itself is ~1e-6 px (ratios up to 215), hence the separate floor there.
FIT_ALLOWANCE = 3.0
FIT_FLOOR_FAR = 1e-5      # reference pixel outside the image (was 2e-3 while the fit used the normal equations, see DESIGN section 6)

OBJ = {}          # id(WCS) -> {"header": dict, "calls": [...], "rstar": float|None}
REPLAYING = [False]


def cases(seed, tier):
    n = 240 if tier == "quick" else 4800
    rng = np.random.default_rng([seed, 10])
    kinds = ["tan", "tpv", "sip", "tpv", "sip", "tpv-const", "sip-noinv", "tan"]
    refs = ["any", "pole", "seam", "any", "southpole", "seam0", "far"]
    for i in range(n):
        yield {"family": kinds[i % len(kinds)], "ref": refs[(i // len(kinds)) % len(refs)], "sub": int(rng.integers(0, 2**31))}
    for i in range(2 if tier == "quick" else 10):
        yield {"family": "big", "ref": "any", "sub": int(rng.integers(0, 2**31)), "first": i == 0, "cap": 15 * 10 ** 5 if tier == "quick" else 5 * 10 ** 6 + 3}


# ---------------------------------------------------------------------------------------------------------------
# header generator

def make_header(rng, fam, ref):
    nx, ny = int(rng.choice([512, 1024, 2048, 4096])), int(rng.choice([512, 1024, 2048, 4096]))
    s = float(rng.uniform(0.05, 2.0)) / 3600.0
    th = float(rng.uniform(0, 2 * np.pi)) if rng.random() < .8 else float(rng.choice([0, np.pi / 2, np.pi, 3 * np.pi / 2]))
    flip = -1.0 if rng.random() < .3 else 1.0
    c, sn = np.cos(th), np.sin(th)
    h = {"naxis1": nx, "naxis2": ny, "cunit1": "deg", "cunit2": "deg",
         "cd1_1": -s * c * flip, "cd1_2": s * sn, "cd2_1": s * sn * flip, "cd2_2": s * c}
    if rng.random() < .6 and ref != "far":
        h["crpix1"], h["crpix2"] = float(rng.uniform(1, nx)), float(rng.uniform(1, ny))
    else:
        # (ref "far": the reference pixel up to 10 image sizes away on at least one axis, where the offsets are all of one
        # sign and nearly equal and the monomials nearly dependent)
        k = float(rng.uniform(0.5, 4)) if ref != "far" else float(rng.uniform(3, 10))
        h["crpix1"] = float(nx / 2 + rng.choice([-1, 1]) * k * nx * rng.uniform(0.3, 1))
        h["crpix2"] = float(ny / 2 + rng.choice([-1, 1]) * k * ny * rng.uniform(0.3, 1))
    if rng.random() < .2:
        h["crpix1"], h["crpix2"] = float(np.round(h["crpix1"])) + 0.5, float(np.round(h["crpix2"]))
    if ref == "pole":
        h["crval1"], h["crval2"] = float(rng.uniform(0, 360)), 90.0 - float(10 ** rng.uniform(-3, 0.5))
    elif ref == "southpole":
        h["crval1"], h["crval2"] = float(rng.uniform(0, 360)), -90.0 + float(10 ** rng.uniform(-3, 0.5))
    elif ref == "seam":
        h["crval1"], h["crval2"] = float(rng.choice([0.0, 360.0 - 1e-9, 1e-9, 359.9999, 1e-4, 360.0 - 1e-13])), float(rng.uniform(-80, 80))
    elif ref == "seam0":
        h["crval1"], h["crval2"] = 0.0, float(rng.choice([0.0, rng.uniform(-85, 85), -64.0]))
    else:
        h["crval1"], h["crval2"] = float(rng.uniform(0, 360)), float(np.degrees(np.arcsin(rng.uniform(-1, 1))))
        h["crval2"] = float(np.clip(h["crval2"], -89.9, 89.9))
    if rng.random() < .25:
        # the native longitude of the celestial pole given explicitly: the default, or another value (the plane turns
        # about the reference point)
        h["longpole"] = float(rng.choice([180.0, 0.0, 90.0, -90.0, rng.uniform(-180, 180)]))
    # far-corner distance from the reference pixel, pixels and degrees
    D = max(np.hypot(cx - h["crpix1"], cy - h["crpix2"]) for cx in (1, nx) for cy in (1, ny))
    E = D * s
    amp = 0.01
    if fam.startswith("tpv"):
        h["ctype1"], h["ctype2"] = ("RA---TPV", "DEC--TPV") if rng.random() < .7 else ("RA---TAN", "DEC--TAN")
        for ax in (1, 2):
            h["pv%d_0" % ax] = float(rng.uniform(-1, 1) * amp * E) if fam == "tpv-const" else 0.0
            h["pv%d_1" % ax] = 1.0 + float(rng.uniform(-1, 1) * amp)
            h["pv%d_2" % ax] = float(rng.uniform(-1, 1) * amp)
            if rng.random() < .5:
                h["pv%d_3" % ax] = 0.0
            for k in (4, 5, 6):
                h["pv%d_%d" % (ax, k)] = float(rng.uniform(-1, 1) * amp / E)
            for k in (7, 8, 9, 10):
                if rng.random() < .8:
                    h["pv%d_%d" % (ax, k)] = float(rng.uniform(-1, 1) * amp / E ** 2)
    elif fam.startswith("sip"):
        h["ctype1"], h["ctype2"] = "RA---TAN-SIP", "DEC--TAN-SIP"
        order = int(rng.integers(2, 5))
        orders = {"a": order, "b": order}
        if rng.random() < .4:
            # the convention gives each axis its own order
            orders = {"a": int(rng.integers(2, 5)), "b": int(rng.integers(2, 5))}
            order = max(orders.values())
        h["a_order"], h["b_order"] = orders["a"], orders["b"]
        for pre in ("a", "b"):
            for p in range(orders[pre] + 1):
                for q in range(orders[pre] + 1 - p):
                    if p + q >= 2 and rng.random() < .8:
                        h["%s_%d_%d" % (pre, p, q)] = float(rng.uniform(-1, 1) * amp / D ** (p + q - 1))
        if fam != "sip-noinv":
            # the orders of the (optional) inverse polynomial without coefficient values: arbitrary AP/BP values would not
            # be the inverse of A/B, i.e. not a valid header
            h["ap_order"], h["bp_order"] = order, order
    else:
        h["ctype1"], h["ctype2"] = "RA---TAN", "DEC--TAN"
    return h


class ItemsOnly:
    """header-like object that only supports items()"""

    def __init__(self, d):
        self._d = {k.upper(): v for k, v in d.items()}

    def items(self):
        return list(self._d.items())


def header_form(rng, h):
    if rng.random() < .12:
        # the header of a tile-compressed image as it is stored: NAXISn describe the binary table that holds the tiles,
        # ZNAXISn give the size of the image
        h = dict(h, znaxis1=h["naxis1"], znaxis2=h["naxis2"], naxis1=8, naxis2=int(h["naxis2"]))
    m = int(rng.integers(0, 3))
    if m == 0:
        return dict(h), "dict"
    if m == 1:
        return ItemsOnly(h), "items()"
    dt = [(k.upper() if rng.random() < .5 else k, "U12" if isinstance(v, str) else ("i8" if isinstance(v, int) else "f8")) for k, v in h.items()]
    a = np.zeros(1, dtype=dt)
    for (nm, _), v in zip(dt, h.values()):
        a[nm] = v
    return a, "structured-array"


# ---------------------------------------------------------------------------------------------------------------
# online oracles

def _rec(obj):
    return OBJ.get(id(obj))


def on_init(call):
    if call.exc is not None or REPLAYING[0]:
        return
    obj = call.args[0]
    try:
        h = {k.lower(): (v.item() if isinstance(v, np.generic) else v) for k, v in obj.wcs.items()}
        for k, v in list(h.items()):
            if isinstance(v, np.ndarray):
                h[k] = v.item()
            if isinstance(h[k], (bytes, np.bytes_)):
                h[k] = h[k].decode()
    except Exception:
        return
    if "znaxis1" in h and "znaxis2" in h:
        h["naxis1"], h["naxis2"] = h["znaxis1"], h["znaxis2"]        # the image size (tile-compression convention)
    OBJ[id(obj)] = {"header": h, "calls": [], "obj": obj}
    if len(OBJ) > 40:
        OBJ.pop(next(iter(OBJ)))


def sig_of(h, what, opts, arr):
    ref = "pole" if abs(h["crval2"]) > 85 else ("seam" if min(h["crval1"] % 360, 360 - h["crval1"] % 360) < 1e-3 else "any")
    return (F.kind(h), what, opts, "array" if arr else "scalar", ref)


def on_image2sky(call):
    if call.depth != 0 or call.exc is not None or REPLAYING[0]:
        return
    r = _rec(call.args[0])
    if r is None:
        return
    h = r["header"]
    x, y = call.arg(1, "x"), call.arg(2, "y")
    distort = call.arg(3, "distort", True)
    r["calls"].append(("image2sky", (copy.deepcopy(x), copy.deepcopy(y)), {"distort": distort}, copy.deepcopy(call.result)))
    lon, lat = call.result
    xa, ya = np.atleast_1d(np.asarray(x, dtype="f8")).ravel(), np.atleast_1d(np.asarray(y, dtype="f8")).ravel()
    la, ba = np.atleast_1d(np.asarray(lon, dtype="f8")).ravel(), np.atleast_1d(np.asarray(lat, dtype="f8")).ravel()
    wit = {"header": {k: h[k] for k in sorted(h)[:60]}, "distort": bool(distort)}
    if la.size != xa.size or not (np.isfinite(la).all() and np.isfinite(ba).all()):
        COL.violation("C10.forward", "image2sky returned %d values for %d pixels, or a non-finite value" % (la.size, xa.size), wit)
        return
    if (la < 0).any() or (la >= 360).any() or (np.abs(ba) > 90).any():
        i = int(np.nonzero((la < 0) | (la >= 360) | (np.abs(ba) > 90))[0][0])
        COL.violation("C10.forward", "image2sky(%.10g, %.10g) = (%.17g, %.17g): longitude outside [0,360) or latitude outside [-90,90]" % (
            xa[i], ya[i], la[i], ba[i]), wit, key=None)
        return
    ref = F.image2sky_vec(h, xa, ya, distort=bool(distort))
    sep = S.sep_vec(S.unit(la, ba), ref)
    worst = float(sep.max())
    COL.info["max_forward_error_deg"] = max(COL.info.get("max_forward_error_deg", 0.0), worst)
    if worst > 1e-9:
        i = int(np.argmax(sep))
        rl, rb = S.lonlat(ref[:, i:i + 1])
        COL.violation("C10.forward", "image2sky(%.10g, %.10g, distort=%s) = (%.15g, %.15g), FITS-WCS reference (%.15g, %.15g): %.3g deg apart" % (
            xa[i], ya[i], distort, la[i], ba[i], float(rl[0]), float(rb[0]), worst), wit)
    else:
        COL.ok("C10.forward", sig_of(h, "image2sky", bool(distort), np.ndim(x) > 0), n=int(xa.size))


def true_pixel(h, lon, lat, x0, y0, distort):
    """Newton iteration on the reference forward map (long double), started at (x0, y0): the pixel whose reference
    sky position is (lon, lat).  Returns (x, y, converged)"""
    s = S.unit(lon, lat)
    a0, d0 = LD(h["crval1"]) * S.D2R, LD(h["crval2"]) * S.D2R
    c = np.array([np.cos(d0) * np.cos(a0), np.cos(d0) * np.sin(a0), np.sin(d0)], dtype=LD)[:, None]
    e = np.array([-np.sin(a0), np.cos(a0), LD(0)], dtype=LD)[:, None]
    n = np.array([-np.sin(d0) * np.cos(a0), -np.sin(d0) * np.sin(a0), np.cos(d0)], dtype=LD)[:, None]
    den = (s * c).sum(axis=0)
    xi_t = (s * e).sum(axis=0) / den * S.R2D
    eta_t = (s * n).sum(axis=0) / den * S.R2D
    x, y = np.asarray(x0, dtype="f8").astype(LD).copy(), np.asarray(y0, dtype="f8").astype(LD).copy()
    ok = den > 0
    for it in range(6):
        xi, eta = F.intermediate(h, x, y, distort)
        step = LD(0.5)
        xi_x, eta_x = F.intermediate(h, x + step, y, distort)
        xi_y, eta_y = F.intermediate(h, x, y + step, distort)
        j11, j21 = (xi_x - xi) / step, (eta_x - eta) / step
        j12, j22 = (xi_y - xi) / step, (eta_y - eta) / step
        r1, r2 = xi_t - xi, eta_t - eta
        det = j11 * j22 - j12 * j21
        dx = (j22 * r1 - j12 * r2) / det
        dy = (-j21 * r1 + j11 * r2) / det
        x, y = x + dx, y + dy
        if float(np.max(np.abs(dx)) + np.max(np.abs(dy))) < 1e-11:
            break
    xi, eta = F.intermediate(h, x, y, distort)
    conv = (np.abs(xi_t - xi) + np.abs(eta_t - eta)) < 1e-13 + 1e-9 * (np.abs(xi_t) + np.abs(eta_t))
    return x, y, ok & conv


def on_sky2image(call):
    if call.depth != 0 or call.exc is not None or REPLAYING[0]:
        return
    r = _rec(call.args[0])
    if r is None:
        return
    h = r["header"]
    lon, lat = call.arg(1, "longitude"), call.arg(2, "latitude")
    distort = bool(call.arg(3, "distort", True))
    find = bool(call.arg(4, "find", True))
    r["calls"].append(("sky2image", (copy.deepcopy(lon), copy.deepcopy(lat)), {"distort": distort, "find": find}, copy.deepcopy(call.result)))
    x, y = call.result
    la, ba = np.atleast_1d(np.asarray(lon, dtype="f8")).ravel(), np.atleast_1d(np.asarray(lat, dtype="f8")).ravel()
    xa, ya = np.atleast_1d(np.asarray(x, dtype="f8")).ravel(), np.atleast_1d(np.asarray(y, dtype="f8")).ravel()
    k = F.kind(h)
    # which forward map the call inverts: the root finder always inverts the distorted map
    eff_distort = True if (find and k != "tan") else distort
    wit = {"header": {kk: h[kk] for kk in sorted(h)[:60]}, "distort": distort, "find": find}
    if xa.size != la.size or not (np.isfinite(xa).all() and np.isfinite(ya).all()):
        COL.violation("C10.inverse", "sky2image returned %d values for %d positions, or a non-finite value" % (xa.size, la.size), wit)
        return
    tx, ty, conv = true_pixel(h, la, ba, xa, ya, eff_distort)
    err = np.sqrt((tx - xa) ** 2 + (ty - ya) ** 2).astype("f8")
    inside = (tx >= 1) & (tx <= h["naxis1"]) & (ty >= 1) & (ty <= h["naxis2"])
    exact = find or k == "tan" or not distort
    # the statement speaks of positions in the image: requests whose true pixel lies outside are not judged (the root
    # finder's tolerance is relative, 1e-8 x |pixel coordinate|, and the reference pixel may be 4 image sizes away)
    judge = conv & np.asarray(inside)
    if exact:
        tol = np.full(xa.size, 1e-6)
    else:
        if r.get("rstar") is None:
            r["rstar"] = F.inverse_fit_residual(h)
        crpix_inside = (1 <= h["crpix1"] <= h["naxis1"]) and (1 <= h["crpix2"] <= h["naxis2"])
        tol = np.full(xa.size, max(FIT_ALLOWANCE * r["rstar"], 1e-6 if crpix_inside else FIT_FLOOR_FAR))
        COL.info["fit_inverse_judged_crpix_inside" if crpix_inside else "fit_inverse_judged_crpix_outside"] = COL.info.get(
            "fit_inverse_judged_crpix_inside" if crpix_inside else "fit_inverse_judged_crpix_outside", 0) + int(judge.sum())
        COL.info["max_fit_inverse_error_over_best_fit_residual"] = max(
            COL.info.get("max_fit_inverse_error_over_best_fit_residual", 0.0),
            float((err[judge] / max(r["rstar"], 1e-9)).max()) if judge.any() else 0.0)
    nsk = int((~judge).sum())
    if nsk:
        COL.skipped("C10.inverse", "outside-image-or-reference-newton-not-converged", n=nsk)
    if not judge.any():
        return
    bad = judge & (err >= tol)
    sig = sig_of(h, "sky2image", (find, distort), np.ndim(lon) > 0)
    if exact:
        COL.info["max_inverse_error_px_exact"] = max(COL.info.get("max_inverse_error_px_exact", 0.0), float(err[judge].max()))
    else:
        COL.info["max_inverse_error_over_allowance_fit"] = max(COL.info.get("max_inverse_error_over_allowance_fit", 0.0), float((err[judge] / tol[judge]).max()))
    if bad.any():
        i = int(np.nonzero(bad)[0][0])
        COL.violation("C10.inverse", "sky2image(%.12g, %.12g, find=%s, distort=%s) = (%.10g, %.10g); the pixel that maps there is (%.10g, %.10g): %.3g px apart (allowed %.3g)" % (
            la[i], ba[i], find, distort, xa[i], ya[i], float(tx[i]), float(ty[i]), err[i], tol[i]), wit)
    else:
        COL.ok("C10.inverse", sig, n=int(judge.sum()))


def on_jacobian(call):
    if call.depth != 0 or call.exc is not None or REPLAYING[0]:
        return
    r = _rec(call.args[0])
    if r is None:
        return
    h = r["header"]
    x, y = call.arg(1, "x"), call.arg(2, "y")
    distort = bool(call.arg(3, "distort", True))
    step = float(call.arg(4, "step", 1.0))
    r["calls"].append(("get_jacobian", (copy.deepcopy(x), copy.deepcopy(y)), {"distort": distort, "step": step}, copy.deepcopy(call.result)))
    xa, ya = np.atleast_1d(np.asarray(x, dtype="f8")).ravel(), np.atleast_1d(np.asarray(y, dtype="f8")).ravel()

    def sky(xx, yy):
        return S.lonlat(F.image2sky_vec(h, xx, yy, distort))
    l0, b0 = sky(xa, ya)
    lp, bp = sky(xa + step, ya)
    lm, bm = sky(xa - step, ya)
    l2p, b2p = sky(xa, ya + step)
    l2m, b2m = sky(xa, ya - step)

    def wrap(d):
        return (d + 180) % 360 - 180
    fac = LD(3600) / (2 * LD(step))
    cosd = -np.cos(b0 * S.D2R)
    exp = [fac * wrap(lp - lm) * cosd, fac * wrap(l2p - l2m) * cosd, fac * (bp - bm), fac * (b2p - b2m)]
    got = [np.atleast_1d(np.asarray(g, dtype="f8")).ravel() for g in call.result]
    worst = max(float(np.max(np.abs(g - np.asarray(e, dtype="f8")))) for g, e in zip(got, exp))
    scale = 3600 * float(np.hypot(h["cd1_1"], h["cd2_1"]))
    if worst > 1e-6 * max(scale, 1e-3) + 1e-7:
        COL.violation("C10.jacobian", "get_jacobian differs from the documented central difference of the reference map by %.3g arcsec/px" % worst,
                      {"header": {kk: h[kk] for kk in sorted(h)[:60]}, "x": probe._jsonable(xa[:4]), "y": probe._jsonable(ya[:4])})
    else:
        COL.ok("C10.jacobian", sig_of(h, "get_jacobian", distort, np.ndim(x) > 0), n=int(xa.size))


def install():
    probe.enable_argflip({"WCS.image2sky": None, "WCS.sky2image": None}, every=4)
    probe.enable_recall("C10.recall", every=5)
    base = "esutil.wcsutil:WCS."
    probe.instrument(base + "__init__", [on_init])
    probe.instrument(base + "image2sky", [on_image2sky])
    probe.instrument(base + "sky2image", [on_sky2image])
    probe.instrument(base + "get_jacobian", [on_jacobian])


# ---------------------------------------------------------------------------------------------------------------
# driver

def positions(rng, h, n):
    nx, ny = h["naxis1"], h["naxis2"]
    x = rng.uniform(1, nx, size=n)
    y = rng.uniform(1, ny, size=n)
    k = rng.integers(0, 10, size=n)
    x = np.where(k == 0, rng.choice([1.0, float(nx)], size=n), x)
    y = np.where(k == 0, rng.choice([1.0, float(ny)], size=n), y)
    x = np.where(k == 1, np.round(x), x)
    # next to the reference pixel (where the native latitude approaches 90 deg): offsets of 1e-6 .. 1 pixel
    near = (k == 2) | (k == 3)
    x = np.where(near, h["crpix1"] + 10 ** rng.uniform(-6, 0, size=n) * rng.choice([-1, 1], size=n), x)
    y = np.where(near, h["crpix2"] + 10 ** rng.uniform(-6, 0, size=n) * rng.choice([-1, 0, 1], size=n), y)
    return x, y


def same(a, b, tol):
    a = [np.atleast_1d(np.asarray(v, dtype="f8")) for v in a]
    b = [np.atleast_1d(np.asarray(v, dtype="f8")) for v in b]
    return all(u.shape == v.shape and np.allclose(u, v, rtol=0, atol=tol) for u, v in zip(a, b))


def run_big(case):
    """long pixel / sky arrays: element for element the same as short windows of the same arrays"""
    from esutil import wcsutil
    rng = np.random.default_rng(case["sub"])
    n = gen.big_size(rng, cap=case.get("cap"), first=case.get("first", False))
    kind = ["tpv", "sip", "tan"][int(rng.integers(0, 3))]
    h = make_header(rng, kind, "any")
    w = wcsutil.WCS(dict(h))
    x, y = rng.uniform(1, h["naxis1"], size=n), rng.uniform(1, h["naxis2"], size=n)
    win = gen.windows(rng, n)
    COL.sample({"family": "big", "n": n, "kind": kind}, limit=3)
    close = lambda a, b: a.shape == b.shape and bool(np.all(np.abs(a - b) <= 1e-12 * (1 + np.abs(b))))   # noqa: E731
    sky = probe.big_vs_windows("C10.scalar-array", "image2sky", w.image2sky, [x, y], win, same=close, wit={"kind": kind})
    if sky is not None:
        lon, lat = np.asarray(sky[0]), np.asarray(sky[1])
        probe.big_vs_windows("C10.scalar-array", "sky2image(find=False)", lambda a, b: w.sky2image(a, b, find=False), [lon, lat], win,
                             same=lambda a, b: a.shape == b.shape and bool(np.all(np.abs(a - b) <= 1e-7)), wit={"kind": kind})
    probe.big_vs_windows("C10.scalar-array", "image2sky(distort=False)", lambda a, b: w.image2sky(a, b, distort=False), [x, y], win, same=close)


def run_case(case):
    if case["family"] == "big":
        return run_big(case)
    from esutil import wcsutil
    rng = np.random.default_rng(case["sub"])
    fam, ref = case["family"], case["ref"]
    h = make_header(rng, fam, ref)
    hobj, form = header_form(rng, h)
    wit = {"header": {k: h[k] for k in sorted(h)[:60]}, "form": form}
    COL.sample({"family": fam, "ref": ref, "form": form, "crval": [h["crval1"], h["crval2"]], "crpix": [h["crpix1"], h["crpix2"]]}, limit=8)
    # several objects of different projection kinds live side by side (one built before, the others after the object
    # under test): state must not leak between objects
    okinds = [k for k in ("tan", "tpv", "sip", "tpv-const") if not fam.startswith(k[:3])]
    rng.shuffle(okinds)
    others = []
    hb = make_header(rng, okinds[0], "any")
    ob, e = probe.attempt(wcsutil.WCS, dict(hb))
    if e is None:
        others.append((ob, hb))
    w, e = probe.attempt(wcsutil.WCS, hobj)
    if e is not None:
        key = "sip/header-without-inverse-order-rejected" if fam == "sip-noinv" and "order" in str(e) else None
        COL.violation("C10.forward", "WCS(%s header) raised %s: %s" % (form, type(e).__name__, str(e)[:140]), wit, key=key)
        return
    for ok_ in okinds[1:3]:
        ha = make_header(rng, ok_, "any")
        oa, e = probe.attempt(wcsutil.WCS, dict(ha))
        if e is None:
            others.append((oa, ha))
            # use it once, inverse included, so that lazily computed state exists
            xo, yo = positions(rng, ha, 3)
            lo_, la_ = F.image2sky(ha, xo, yo)
            probe.attempt(oa.sky2image, np.asarray(lo_, dtype="f8"), np.asarray(la_, dtype="f8"), find=False)
    kind = F.kind(h)
    # ---- the reference pixel maps to (CRVAL1 mod 360, CRVAL2), longitude in [0, 360)
    for dist in ([True, False] if fam != "tpv-const" else [False]):
        for arr in (False, True):
            cx, cy = (h["crpix1"], h["crpix2"]) if not arr else (np.array([h["crpix1"]] * 2), np.array([h["crpix2"]] * 2))
            res, e = probe.attempt(w.image2sky, cx, cy, distort=dist)
            if e is not None:
                key = "sip/distort-false-unboundlocal" if kind == "sip" and not dist and isinstance(e, UnboundLocalError) else None
                COL.violation("C10.refpix", "image2sky(reference pixel, distort=%s) raised %s: %s" % (dist, type(e).__name__, str(e)[:120]), wit, key=key)
                continue
            lon = np.atleast_1d(np.asarray(res[0], dtype="f8"))
            lat = np.atleast_1d(np.asarray(res[1], dtype="f8"))
            sep = float(S.sep(lon, lat, np.full(lon.size, h["crval1"]), np.full(lon.size, h["crval2"])).max())
            if not ((lon >= 0).all() and (lon < 360).all()):
                COL.violation("C10.refpix", "the reference pixel maps to longitude %.17g, outside [0, 360) (CRVAL1 = %.17g)" % (lon[0], h["crval1"]), wit)
            elif sep > 1e-9:
                COL.violation("C10.refpix", "the reference pixel maps to (%.15g, %.15g), %.3g deg from CRVAL (%.15g, %.15g)" % (lon[0], lat[0], sep, h["crval1"], h["crval2"]), wit)
            else:
                COL.ok("C10.refpix", (kind, dist, arr, ref))
    # ---- random walk of calls on the one object (judged online); scalar vs array agreement
    nsteps = int(rng.integers(2, 13))
    for step in range(nsteps):
        if others and rng.random() < .3:
            # a call on one of the other live objects in between (judged online like every other call)
            o2, h2 = others[int(rng.integers(0, len(others)))]
            x2, y2 = positions(rng, h2, 3)
            if rng.random() < .5:
                probe.attempt(o2.image2sky, x2, y2)
            else:
                l2, b2 = F.image2sky(h2, x2, y2)
                probe.attempt(o2.sky2image, np.asarray(l2, dtype="f8"), np.asarray(b2, dtype="f8"), find=bool(rng.random() < .5))
        op = ["image2sky", "image2sky", "sky2image", "sky2image", "sky2image", "get_jacobian"][int(rng.integers(0, 6))]
        n = int(rng.choice([1, 3, 12]))
        x, y = positions(rng, h, n)
        dist = bool(rng.random() < .7)
        if op == "image2sky":
            if rng.random() < .35:
                # the positions as a catalogue stores them: float32 columns, integer pixel indices, lists (every such
                # value is an exact pixel position; the reference works on the same values in float64)
                st = str(rng.choice(["f4", "f4", "i4", "i8", "u2", "i2", "list"]))
                if st == "list":
                    probe.attempt(w.image2sky, x.tolist(), y.tolist(), distort=dist)
                else:
                    x, y = (np.maximum(np.round(x), 1) if st[0] in "iu" else x).astype(st), (np.maximum(np.round(y), 1) if st[0] in "iu" else y).astype(st)
                    if n == 1 and rng.random() < .5:
                        probe.attempt(w.image2sky, x[0], y[0], distort=dist)        # NumPy scalars of that type
                COL.info["typed_pixel_inputs"] = COL.info.get("typed_pixel_inputs", 0) + 1
            res, e = probe.attempt(w.image2sky, gen.maybe_view(rng, x), gen.maybe_view(rng, y), distort=dist)
            if e is not None:
                key = "sip/distort-false-unboundlocal" if kind == "sip" and not dist and isinstance(e, UnboundLocalError) else None
                COL.violation("C10.forward", "image2sky(array, distort=%s) raised %s: %s" % (dist, type(e).__name__, str(e)[:120]), wit, key=key)
                continue
            sc = [probe.attempt(w.image2sky, float(a), float(b), distort=dist)[0] for a, b in zip(x, y)]
            if any(s is None for s in sc) or not same(([s[0] for s in sc], [s[1] for s in sc]), res, 1e-12):
                COL.violation("C10.scalar-array", "image2sky: scalar calls differ from the array call", wit)
            elif not all(np.ndim(s[0]) == 0 for s in sc):
                COL.violation("C10.scalar-array", "image2sky(scalar) did not return scalars", wit)
            else:
                COL.ok("C10.scalar-array", (kind, "image2sky", dist))
        elif op == "sky2image":
            find = bool(rng.random() < .6)
            # the sky positions of known pixels, from the reference (not from the object under test)
            lon, lat = F.image2sky(h, x, y, distort=(True if (find and kind != "tan") else dist))
            lon, lat = np.asarray(lon, dtype="f8"), np.asarray(lat, dtype="f8")
            res, e = probe.attempt(w.sky2image, gen.maybe_view(rng, lon.copy()), gen.maybe_view(rng, lat.copy()), distort=dist, find=find)
            if e is not None:
                COL.violation("C10.inverse", "sky2image(array, find=%s, distort=%s) raised %s: %s" % (find, dist, type(e).__name__, str(e)[:120]), wit)
                continue
            sc = [probe.attempt(w.sky2image, float(a), float(b), distort=dist, find=find)[0] for a, b in zip(lon, lat)]
            if any(s is None for s in sc) or not same(([s[0] for s in sc], [s[1] for s in sc]), res, 1e-9):
                COL.violation("C10.scalar-array", "sky2image(find=%s, distort=%s): scalar calls differ from the array call" % (find, dist), wit)
            else:
                COL.ok("C10.scalar-array", (kind, "sky2image", find, dist))
        else:
            stepkw = {} if rng.random() < .5 else {"step": float(rng.choice([0.25, 0.5, 2.0, 3.0]))}
            res, e = probe.attempt(w.get_jacobian, gen.maybe_view(rng, x), gen.maybe_view(rng, y), distort=dist, **stepkw)
            if e is not None:
                key = "sip/distort-false-unboundlocal" if kind == "sip" and not dist and isinstance(e, UnboundLocalError) else None
                COL.violation("C10.jacobian", "get_jacobian raised %s: %s" % (type(e).__name__, str(e)[:120]), wit, key=key)
                continue
            sc = [probe.attempt(w.get_jacobian, float(a), float(b), distort=dist, **stepkw)[0] for a, b in zip(x, y)]
            if any(s is None for s in sc) or not same([[s[j] for s in sc] for j in range(4)], res, 1e-9):
                COL.violation("C10.scalar-array", "get_jacobian: scalar calls differ from the array call", wit)
            else:
                COL.ok("C10.scalar-array", (kind, "get_jacobian", dist))
    # ---- history independence: every recorded top-level call is re-issued on a fresh object of the same header
    rec = OBJ.get(id(w))
    if rec is None or not rec["calls"]:
        return
    REPLAYING[0] = True
    try:
        bad = None
        order = list(range(len(rec["calls"])))
        for variant in ("fresh-object-per-call", "one-fresh-object-reversed-order"):
            w2 = wcsutil.WCS(copy.deepcopy(hobj)) if variant != "fresh-object-per-call" else None
            for i in (order if variant == "fresh-object-per-call" else order[::-1]):
                name, args, kw, result = rec["calls"][i]
                wf = wcsutil.WCS(copy.deepcopy(hobj)) if w2 is None else w2
                r2, e = probe.attempt(getattr(wf, name), *copy.deepcopy(args), **kw)
                if e is not None:
                    bad = "%s%r raised %s on a %s although it returned on the used object" % (name, kw, type(e).__name__, variant)
                    break
                tol = 1e-9 if name == "sky2image" else (1e-12 if name == "image2sky" else 1e-9)
                if not same(r2, result, tol):
                    d = max(float(np.max(np.abs(np.atleast_1d(np.asarray(a, dtype="f8")) - np.atleast_1d(np.asarray(b, dtype="f8"))))) for a, b in zip(r2, result))
                    bad = "call %d (%s %r): result on the used object differs from a %s by %.3g" % (i, name, kw, variant, d)
                    break
            if bad:
                break
        if bad:
            COL.violation("C10.history", bad, dict(wit, history=[(c[0], c[2]) for c in rec["calls"]][:14]))
        else:
            COL.ok("C10.history", (kind, tuple(c[0][0] + ("F" if c[2].get("find") else "") for c in rec["calls"])[:14]))
    finally:
        REPLAYING[0] = False
        OBJ.pop(id(w), None)
        for o2, _ in others:
            OBJ.pop(id(o2), None)
