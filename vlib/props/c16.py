"""C16 Byte-order conversion preserves values and declares the requested order."""
import sys

import numpy as np

from vlib import probe, gen
from vlib.probe import COL

ID = "C16"
NATIVE = False
RULE = ("seeded plain arrays of every numeric kind/size in both byte orders, S and U, and structured arrays whose "
        "multi-byte fields share one order with single-byte and string fields mixed in at first/middle/last position "
        "(scalar and sub-array fields), shapes (), (n,), (n,m), raw random cell bytes; each array is driven through "
        "to_native / to_big_endian / to_little_endian / byteswap x inplace x keep_dtype, twice in a row (idempotence, "
        "swap-swap), plus the predicates on every byte-order spelling and descr_to_native; signature = (function, "
        "inplace, keep_dtype, plain/structured, source order, no-order fields present and where, sub-arrays, ndim, "
        "swap needed)")
TRUSTED = ["numpy astype between byte orders", "numpy dtype.newbyteorder"]
ASSUMPTIONS = ["structured arrays are uniformly ordered (all multi-byte fields share one declared order)",
               "arrays are contiguous (layouts are C15's matrix)"]
THOROUGH_ROUNDS = 20      # the thorough tier runs the generator over this many derived seeds
REQUIRED = {"quick": {"C16.convert": 3000, "C16.predicate": 300, "C16.descr": 150},
            "thorough": {"C16.convert": 40000, "C16.predicate": 4000, "C16.descr": 2000}}
LITTLE = sys.byteorder == "little"
PLAIN = ["i1", "u1", "i2", "u2", "i4", "u4", "i8", "u8", "f2", "f4", "f8", "c8", "c16", "S5", "U3", "b1"]


def cases(seed, tier):
    n = 800 if tier == "quick" else 8000
    rng = np.random.default_rng([seed, 16])
    for i in range(n):
        yield {"family": ["plain", "structured", "structured-mixed", "predicates"][i % 4], "sub": int(rng.integers(0, 2**31))}


def raw_bytes(a):
    """the stored bytes of the values: field by field when the layout has padding (padding bytes carry no value and
    numpy does not promise to copy them)"""
    if a.dtype.names is not None and a.dtype.itemsize != sum(a.dtype.fields[n][0].itemsize for n in a.dtype.names):
        return b"".join(np.ascontiguousarray(a[n]).tobytes() for n in a.dtype.names)
    return a.tobytes()


def native_bytes(a):
    if a.dtype.names is not None and a.dtype.itemsize != sum(a.dtype.fields[n][0].itemsize for n in a.dtype.names):
        # a layout with padding / explicit offsets: the values field by field (padding bytes carry no value)
        return b"".join(np.ascontiguousarray(a[n]).astype(a.dtype.fields[n][0].newbyteorder("=")).tobytes() for n in a.dtype.names)
    return a.astype(a.dtype.newbyteorder("=")).tobytes()


def orders(dt):
    """set of declared orders of multi-byte base types ('<' or '>'), '|' ignored"""
    out = set()
    if dt.names is None:
        bases = [dt.base]
    else:
        bases = [dt.fields[n][0].base for n in dt.names]
    for b in bases:
        o = b.byteorder
        if o == "=":
            o = "<" if LITTLE else ">"
        if o != "|":
            out.add(o)
    return out


def structure(dt):
    if dt.names is None:
        return (dt.base.kind, dt.base.itemsize, dt.shape)
    return tuple((n, dt.fields[n][0].base.kind, dt.fields[n][0].base.itemsize, dt.fields[n][0].shape, dt.fields[n][1])
                 for n in dt.names)


# pre-call snapshots taken by a "before" hook are not available in the generic wrapper, so the driver records
# them in this module-level slot before each call
PRE = {}


def _o_convert(call):
    if call.depth > 0:
        return
    fn = call.label
    a = call.arg(0, "array")
    inplace, keep = bool(call.arg(1, "inplace", False)), bool(call.arg(2, "keep_dtype", False))
    pre = PRE.get(id(a))
    if pre is None:
        return
    wit = {"fn": fn, "inplace": inplace, "keep_dtype": keep, "dtype": repr(pre["dtype"].descr if pre["dtype"].names else pre["dtype"].str),
           "shape": list(a.shape)}
    mon = "C16.convert"
    if call.exc is not None:
        COL.violation(mon, "%s raised %r" % (fn, call.exc), wit)
        return
    r = call.result
    src = pre["orders"]
    want = {"to_native": "<" if LITTLE else ">", "to_big_endian": ">", "to_little_endian": "<"}.get(fn)
    if fn == "byteswap":
        swap_needed = True
        want_set = set(">" if o == "<" else "<" for o in src)
    else:
        swap_needed = bool(src) and src != {want}
        want_set = {want} if src else set()
    key = None
    if fn in ("to_big_endian", "to_little_endian") and not swap_needed and pre["dtype"].names is not None and pre["has_noorder"] and src:
        key = "to_big_little_endian/no-order-field-triggers-swap"
    bad = None
    if not isinstance(r, np.ndarray) or r.shape != pre["shape"]:
        bad = "result is not an array of the input's shape"
    elif structure(r.dtype) != pre["structure"]:
        bad = "field structure changed"
    elif inplace and r is not a:
        bad = "inplace=True returned a different object"
    elif not inplace and np.shares_memory(r, a):
        bad = "inplace=False result shares memory with the input"
    elif not inplace and (raw_bytes(a) != pre["raw"] or a.dtype != pre["dtype"]):
        bad = "inplace=False modified the caller's array"
    else:
        if keep:
            if r.dtype != pre["dtype"]:
                bad = "keep_dtype=True changed the dtype"
            else:
                eff = r.view(r.dtype.newbyteorder("S")) if swap_needed else r
                if native_bytes(eff) != pre["native"]:
                    bad = "keep_dtype=True: buffer %s" % ("was not swapped" if swap_needed else "was swapped although already in the requested order")
        else:
            if orders(r.dtype) != want_set:
                bad = "declared order %r, requested %r" % (sorted(orders(r.dtype)), sorted(want_set))
            elif native_bytes(r) != pre["native"]:
                bad = "element values changed"
    if bad:
        COL.violation(mon, "%s(inplace=%r, keep_dtype=%r): %s" % (fn, inplace, keep, bad), wit, key=key)
        return
    COL.ok(mon, (fn, inplace, keep, pre["dtype"].names is not None, tuple(sorted(src)), pre["noorder_pos"],
                 pre["sub"], len(pre["shape"]), swap_needed, pre.get("step", 0)))


def install():
    probe.enable_recall("C16.recall", every=5)
    m = "esutil.numpy_util:"
    for f in ("to_native", "to_big_endian", "to_little_endian", "byteswap"):
        probe.instrument(m + f, [_o_convert], inplace=lambda a, k: {"arg0", "array"} if (len(a) > 1 and a[1]) or k.get("inplace") else ())
    probe.instrument(m + "is_big_endian", [])
    probe.instrument(m + "is_little_endian", [])
    probe.instrument(m + "descr_to_native", [])


def _record(a, step=0):
    dt = a.dtype
    if dt.names is None:
        noorder = ()
        sub = False
    else:
        flags = [dt.fields[n][0].base.byteorder == "|" for n in dt.names]
        noorder = tuple(p for p, f in (("first", flags[0]), ("middle", any(flags[1:-1])), ("last", flags[-1])) if f)
        sub = any(dt.fields[n][0].shape != () for n in dt.names)
    PRE.clear()
    PRE[id(a)] = {"dtype": dt, "shape": a.shape, "raw": raw_bytes(a), "native": native_bytes(a), "orders": orders(dt),
                  "structure": structure(dt), "has_noorder": bool(noorder), "noorder_pos": noorder, "sub": sub, "step": step}


def _make(rng, fam, packed=False):
    shape = [(), (int(rng.integers(1, 9)),), (int(rng.integers(1, 5)), int(rng.integers(1, 4)))][int(rng.integers(0, 3))]
    if fam == "plain":
        t = PLAIN[int(rng.integers(0, len(PLAIN)))]
        bo = rng.choice(["<", ">"])
        dt = np.dtype(t).newbyteorder(bo)
        a = np.zeros(shape, dtype=dt)
        if dt.kind == "U":
            a[...] = "aé"[: dt.itemsize // 4]
        elif dt.kind == "b":
            a[...] = rng.integers(0, 2, size=shape).astype(bool)
        else:
            raw = rng.integers(0, 256, size=a.size * dt.itemsize, dtype=np.uint8).tobytes()
            a = np.frombuffer(raw, dtype=dt).reshape(shape).copy()
        return a
    bo = str(rng.choice(["<", ">"]))
    multi = ["i2", "u2", "i4", "u4", "i8", "u8", "f4", "f8", "c8", "U"]
    single = ["i1", "u1", "S", "?"]
    nf = int(rng.integers(1, 7))
    if fam == "structured":
        kinds = [multi[int(rng.integers(0, len(multi)))] for _ in range(nf)]
    else:
        kinds = [multi[int(rng.integers(0, len(multi)))] for _ in range(max(nf, 2))]
        pos = ["first", "middle", "last", "all-but-one"][int(rng.integers(0, 4))]
        if pos == "first":
            kinds[0] = single[int(rng.integers(0, 4))]
        elif pos == "last":
            kinds[-1] = single[int(rng.integers(0, 4))]
        elif pos == "middle" and len(kinds) > 2:
            kinds[len(kinds) // 2] = single[int(rng.integers(0, 4))]
        else:
            keepi = int(rng.integers(0, len(kinds)))
            kinds = [k if i == keepi else single[int(rng.integers(0, 4))] for i, k in enumerate(kinds)]
    names = list(gen.NAMES)
    rng.shuffle(names)
    descr = [gen.field_descr(rng, names[i], [k], byteorders=(bo,), maxsub=2) for i, k in enumerate(kinds)]
    if not packed and rng.random() < .12:
        # field titles (numpy lists a titled field under its name and under its title)
        descr = [((("Title of %s" % d[0]), d[0]),) + tuple(d[1:]) if rng.random() < .6 else d for d in descr]
    a = np.zeros(shape, dtype=descr)
    gen.fill(rng, a)
    if not packed and rng.random() < .2 and not any(isinstance(d[0], tuple) for d in descr):
        # the same fields in a layout that is not packed: aligned (padding between fields), or a multi-field index of
        # a wider table (a view that keeps the parent's offsets and item size)
        if rng.random() < .5 or len(a.dtype.names) < 2:
            b = np.zeros(shape, dtype=np.dtype(descr, align=True))
        else:
            keep = [n for i, n in enumerate(a.dtype.names) if i % 2 == 0 or rng.random() < .5]
            wide = np.zeros(shape, dtype=descr + [("zz_tail", a.dtype.fields[a.dtype.names[0]][0].base.str[0] + "i8" if a.dtype.fields[a.dtype.names[0]][0].base.str[0] in "<>" else "|S3")])
            for n in a.dtype.names:
                wide[n] = a[n]
            return wide[keep]
        for n in a.dtype.names:
            b[n] = a[n]
        return b
    return a


def run_case(case):
    import esutil.numpy_util as nu
    rng = np.random.default_rng(case["sub"])
    fam = case["family"]
    if fam == "predicates":
        for t in ("i2", "f8", "u4", "c8", "U2", "S3", "u1", "f4"):
            for sp in ("<", ">", "=", "|"):
                try:
                    dt = np.dtype(sp + t)
                except TypeError:
                    continue
                a = np.zeros(int(rng.integers(0, 4)), dtype=dt)
                if rng.random() < .3:
                    a = np.zeros((2,), dtype=[("f", dt, (2,))])["f"]
                bo = a.dtype.base.byteorder
                eb = bo == ">" or (bo == "=" and not LITTLE)
                el = bo == "<" or (bo == "=" and LITTLE)
                (rb, e1), (rl, e2) = probe.attempt(nu.is_big_endian, a), probe.attempt(nu.is_little_endian, a)
                if e1 is None and e2 is None and bool(rb) == eb and bool(rl) == el:
                    COL.ok("C16.predicate", ("pred", t, sp, a.ndim))
                else:
                    COL.violation("C16.predicate", "predicates (big=%r little=%r) disagree with declared order %r of %s%s" % (
                        rb if e1 is None else e1, rl if e2 is None else e2, bo, sp, t), {})
        # descr_to_native
        a = _make(rng, "structured-mixed", packed=True)       # (a descr with padding entries does not name a dtype)
        d, e = probe.attempt(nu.descr_to_native, a.dtype.descr)
        try:
            okk = e is None and np.dtype(d) == a.dtype.newbyteorder("=") and [x[0] for x in d] == list(a.dtype.names) \
                and all(not str(x[1])[0] in "<>" for x in d)
        except Exception as ex:
            okk, e = False, ex
        if okk:
            COL.ok("C16.descr", ("descr", len(d), tuple(sorted(orders(a.dtype)))))
        else:
            COL.violation("C16.descr", "descr_to_native(%r) -> %r" % (a.dtype.descr, d if e is None else e), {})
        return
    a0 = _make(rng, fam)
    COL.sample({"family": fam, "dtype": repr(a0.dtype.descr if a0.dtype.names else a0.dtype.str)[:200], "shape": list(a0.shape)}, limit=8)
    for fname in ("to_native", "to_big_endian", "to_little_endian", "byteswap"):
        f = getattr(nu, fname)
        for inplace in (False, True):
            for keep in (False, True):
                a = a0.copy()
                root = None
                if a.ndim == 1 and a.size and rng.random() < .3:
                    # a non-contiguous view into a larger buffer: only the viewed elements may change
                    a, vkind = gen.as_view(rng, a)
                    root = a
                    while root.base is not None:
                        root = root.base
                    root_before = root.tobytes()
                _record(a)
                r, e = probe.attempt(f, a, inplace=inplace, keep_dtype=keep)
                if root is not None and e is None:
                    # put the viewed elements back as they were; everything else in the buffer must be as before
                    a.view(a0.dtype)[...] = a0
                    if root.tobytes() != root_before:
                        COL.violation("C16.convert", "%s(inplace=%r, keep_dtype=%r) on a %s view changed bytes of the underlying "
                                      "buffer outside the view" % (fname, inplace, keep, vkind), {"dtype": repr(a0.dtype)[:200]},
                                      key="view-neighbours-changed")
                    else:
                        COL.ok("C16.convert", (fname, inplace, keep, "view-neighbours", vkind))
                    continue
                if e is not None or r is None or keep:
                    continue
                # second application: idempotence (conversions) / restoration (byteswap)
                first_dtype, first_raw = r.dtype, raw_bytes(r)
                _record(r, step=1)
                r2, e2 = probe.attempt(f, r, inplace=inplace, keep_dtype=keep)
                if e2 is not None:
                    continue
                if fname == "byteswap":
                    if raw_bytes(r2) != raw_bytes(a0) or r2.dtype != a0.dtype:
                        COL.violation("C16.convert", "byteswap twice does not restore the original bytes/dtype",
                                      {"dtype": repr(a0.dtype)[:200]})
                elif r2.dtype != first_dtype or raw_bytes(r2) != first_raw:
                    COL.violation("C16.convert", "%s is not idempotent" % fname, {"dtype": repr(a0.dtype)[:200]})
    PRE.clear()
