"""C07 Structured-array field operations preserve data, types and documented order."""
import itertools

import numpy as np

from vlib import probe, gen
from vlib.probe import COL

ID = "C07"
NATIVE = False
RULE = ("seeded packed structured arrays of shape (), (n,), (n,m) with 1-7 fields (numeric, bytes, unicode; scalar "
        "and sub-array; both byte orders; raw random cell bytes) driven through extract/remove/add/reorder/combine/"
        "copy_fields/copy_fields_by_name/split_fields/compare_arrays with name selections as scalar, list, tuple, "
        "ndarray (every subset and order for <= 4 fields) and the invalid requests of the statement; signature = "
        "(function, ndim, nfields, selection container, selection size, sub-array present, byte orders present, "
        "outcome); non-trivial when the array has at least two fields or two elements")
TRUSTED = ["numpy dtype.fields / ascontiguousarray / item assignment"]
ASSUMPTIONS = ["remove_fields is driven with a scalar or a list only", "no duplicate names inside a selection",
               "combine_fields([a]) returns a itself by design"]
THOROUGH_ROUNDS = 8      # the thorough tier runs the generator over this many derived seeds
CASE_TIMEOUT = 600
REQUIRED = {"quick": {"C07.extract": 600, "C07.remove": 400, "C07.add": 300, "C07.reorder": 500, "C07.combine": 250,
                      "C07.copy": 250, "C07.split": 200, "C07.compare": 200},
            "thorough": {"C07.extract": 12000, "C07.remove": 8000, "C07.add": 6000, "C07.reorder": 10000,
                         "C07.combine": 5000, "C07.copy": 5000, "C07.split": 4000, "C07.compare": 4000}}
KINDS = gen.INTS + gen.FLOATS + ["S", "S", "U", "c8", "c16", "?"]
FAMS = ["extract", "remove", "add", "reorder", "combine", "copy", "split", "compare"]


def cases(seed, tier):
    n = 2400 if tier == "quick" else 40000
    rng = np.random.default_rng([seed, 7])
    for i in range(n):
        yield {"family": FAMS[i % len(FAMS)], "sub": int(rng.integers(0, 2**31))}
    for i in range(1 if tier == "quick" else 4):
        yield {"family": "big", "sub": int(rng.integers(0, 2**31)), "first": i == 0, "cap": 15 * 10 ** 5 if tier == "quick" else 2 ** 22 + 5}


def _names(sel):
    if isinstance(sel, (tuple, list, np.ndarray)):
        return [str(s) for s in sel]
    return [str(sel)]


def _ctype(sel):
    return type(sel).__name__


def _sig(fn, arr, sel, outcome):
    dt = arr.dtype
    bos = tuple(sorted(set(dt.fields[n][0].base.byteorder for n in dt.names)))
    sub = any(dt.fields[n][0].shape != () for n in dt.names)
    return (fn, arr.ndim, len(dt.names), _ctype(sel), len(_names(sel)) if sel is not None else 0, sub, bos, outcome)


def _check_result(mon, fn, arr, res, exp_names, wit, sel, allow_same=False, srcs=None):
    """Common judgement of a result array against the documented field list."""
    if not isinstance(res, np.ndarray) or res.dtype.names is None:
        COL.violation(mon, "%s did not return a structured array" % fn, wit)
        return False
    if res.shape != arr.shape:
        key = "combine_fields/shape-not-preserved" if fn == "combine_fields" else None
        COL.violation(mon, "%s: result shape %r != input shape %r" % (fn, res.shape, arr.shape), wit, key=key)
        return False
    if list(res.dtype.names) != list(exp_names):
        COL.violation(mon, "%s: field list %r, documented order %r" % (fn, list(res.dtype.names), list(exp_names)), wit)
        return False
    for src in (srcs or [arr]):
        for n in src.dtype.names:
            if n in res.dtype.names and not gen.same_field(src, res, n):
                COL.violation(mon, "%s: retained field %r differs (type %r -> %r, bytes equal: %r)" % (
                    fn, n, src.dtype.fields[n][0], res.dtype.fields[n][0],
                    gen.field_bytes(src[n]) == gen.field_bytes(res[n])), wit)
                return False
        if not allow_same and np.shares_memory(src, res):
            COL.violation(mon, "%s: result shares memory with its input" % fn, wit)
            return False
    return True


def _wit(arr, **kw):
    w = {"dtype": repr(arr.dtype.descr)[:300], "shape": list(arr.shape)}
    w.update(kw)
    return w


def _o_extract(call):
    if call.depth > 0:
        return
    arr, sel, strict = call.arg(0, "arr"), call.arg(1, "keepnames"), call.arg(2, "strict", True)
    names = _names(sel)
    wit = _wit(arr, keep=names, strict=strict, container=_ctype(sel))
    exp = [n for n in arr.dtype.names if n in names]
    missing = [n for n in names if n not in arr.dtype.names]
    must_fail = (strict and missing) or not exp
    if must_fail:
        if call.exc is None:
            COL.violation("C07.extract", "invalid request accepted (missing=%r, kept=%r)" % (missing, exp), wit)
        else:
            COL.ok("C07.extract", _sig("extract", arr, sel, "rejected"))
        return
    if call.exc is not None:
        COL.violation("C07.extract", "extract_fields raised %r" % call.exc, wit)
        return
    if _check_result("C07.extract", "extract_fields", arr, call.result, exp, wit, sel):
        COL.ok("C07.extract", _sig("extract", arr, sel, "ok") if len(arr.dtype.names) > 1 or arr.size > 1 else None)


def _o_remove(call):
    if call.depth > 0:
        return
    arr, sel = call.arg(0, "arr"), call.arg(1, "rmnames")
    names = _names(sel)
    wit = _wit(arr, remove=names, container=_ctype(sel))
    exp = [n for n in arr.dtype.names if n not in names]
    if not exp:
        if call.exc is None:
            COL.violation("C07.remove", "removing every field was accepted", wit)
        else:
            COL.ok("C07.remove", _sig("remove", arr, sel, "rejected"))
        return
    if call.exc is not None:
        COL.violation("C07.remove", "remove_fields raised %r" % call.exc, wit)
        return
    if _check_result("C07.remove", "remove_fields", arr, call.result, exp, wit, sel):
        COL.ok("C07.remove", _sig("remove", arr, sel, "ok") if len(arr.dtype.names) > 1 or arr.size > 1 else None)


def _o_add(call):
    if call.depth > 0:
        return
    arr, add, defaults = call.arg(0, "arr"), call.arg(1, "add_dtype_or_descr"), call.arg(2, "defaults")
    adt = np.dtype(add)
    wit = _wit(arr, add=repr(adt.descr)[:200], defaults=repr(defaults)[:200])
    clash = [n for n in adt.names if n in arr.dtype.names]
    if clash:
        if call.exc is None:
            COL.violation("C07.add", "adding existing field %r was accepted" % clash, wit)
        else:
            COL.ok("C07.add", _sig("add", arr, None, "rejected"))
        return
    if call.exc is not None:
        COL.violation("C07.add", "add_fields raised %r" % call.exc, wit)
        return
    res = call.result
    if not _check_result("C07.add", "add_fields", arr, res, list(arr.dtype.names) + list(adt.names), wit, None):
        return
    dl = defaults if isinstance(defaults, list) or defaults is None else [defaults]
    for i, n in enumerate(adt.names):
        if res.dtype.fields[n][0] != adt.fields[n][0]:
            COL.violation("C07.add", "new field %r has type %r, requested %r" % (n, res.dtype.fields[n][0], adt.fields[n][0]), wit)
            return
        exp = np.zeros(arr.shape, dtype=[adt.descr[i]])
        if dl is not None:
            exp[n] = dl[i]
        if gen.field_bytes(res[n]) != gen.field_bytes(exp[n]):
            COL.violation("C07.add", "new field %r is not %s" % (n, "zero-filled" if dl is None else "set to its default %r" % (dl[i],)), wit)
            return
    COL.ok("C07.add", _sig("add", arr, None, ("defaults" if dl is not None else "zeros", len(adt.names),
                                              isinstance(add, np.dtype), any(adt.fields[n][0].shape != () for n in adt.names))))


def _o_reorder(call):
    if call.depth > 0:
        return
    arr, sel, strict = call.arg(0, "arr"), call.arg(1, "ordered_names"), call.arg(2, "strict", True)
    names = _names(sel)
    wit = _wit(arr, ordered=names, strict=strict, container=_ctype(sel))
    missing = [n for n in names if n not in arr.dtype.names]
    if strict and missing:
        if call.exc is None:
            COL.violation("C07.reorder", "missing field %r accepted in strict mode" % missing, wit)
        else:
            COL.ok("C07.reorder", _sig("reorder", arr, sel, "rejected"))
        return
    if call.exc is not None:
        COL.violation("C07.reorder", "reorder_fields raised %r" % call.exc, wit)
        return
    front = [n for n in names if n in arr.dtype.names]
    exp = front + [n for n in arr.dtype.names if n not in front]
    if _check_result("C07.reorder", "reorder_fields", arr, call.result, exp, wit, sel):
        COL.ok("C07.reorder", _sig("reorder", arr, sel, "ok" if exp != list(arr.dtype.names) else "identity")
               if len(arr.dtype.names) > 1 else None)


def _o_combine(call):
    if call.depth > 0:
        return
    lst = call.arg(0, "arrlist")
    wit = {"n_arrays": len(lst), "shapes": [list(a.shape) for a in lst], "names": [list(a.dtype.names) for a in lst]}
    allnames = list(itertools.chain(*[a.dtype.names for a in lst]))
    def fits(sh):       # can an array of shape sh be assigned element for element into lst[0]'s shape?
        try:
            return np.broadcast_shapes(sh, lst[0].shape) == lst[0].shape
        except ValueError:
            return False
    # "different length": another number of elements, or the same number arranged in rows of another length
    bad = len(set(a.size for a in lst)) > 1 or len(set(allnames)) != len(allnames) or len(lst) == 0 or \
        any(a.shape != lst[0].shape and not fits(a.shape) for a in lst)
    if bad:
        if call.exc is None:
            COL.violation("C07.combine", "arrays of different length / shared names accepted", wit)
        else:
            COL.ok("C07.combine", ("combine", "rejected", len(lst)))
        return
    if call.exc is not None:
        key = "combine_fields/shape-not-preserved" if lst[0].ndim != 1 else None
        COL.violation("C07.combine", "combine_fields raised %r" % call.exc, wit, key=key)
        return
    if _check_result("C07.combine", "combine_fields", lst[0], call.result, allnames, wit, None,
                     allow_same=(len(lst) == 1), srcs=lst):
        COL.ok("C07.combine", ("combine", lst[0].ndim, len(lst), len(allnames)))


def _o_split(call):
    if call.depth > 0:
        return
    data, fields, getnames = call.arg(0, "data"), call.arg(1, "fields"), call.arg(2, "getnames", False)
    wit = _wit(data, fields=repr(fields)[:200])
    want = list(data.dtype.names) if fields is None else _names(fields)
    missing = [n for n in want if n not in data.dtype.names]
    if missing:
        if call.exc is None:
            COL.violation("C07.split", "missing field accepted", wit)
        else:
            COL.ok("C07.split", ("split", "rejected"))
        return
    if call.exc is not None:
        COL.violation("C07.split", "split_fields raised %r" % call.exc, wit)
        return
    tup = call.result[0] if getnames else call.result
    if len(tup) != len(want):
        COL.violation("C07.split", "returned %d views for %d fields" % (len(tup), len(want)), wit)
        return
    for n, v in zip(want, tup):
        if v.dtype != data[n].dtype or gen.field_bytes(v) != gen.field_bytes(data[n]) or not np.shares_memory(v, data):
            COL.violation("C07.split", "view of field %r is not data[%r]" % (n, n), wit)
            return
    if getnames and list(call.result[1]) != want:
        COL.violation("C07.split", "returned names %r != %r" % (list(call.result[1]), want), wit)
        return
    COL.ok("C07.split", ("split", data.ndim, len(want), fields is None, _ctype(fields), bool(getnames)))


def install():
    probe.enable_recall("C07.recall", every=5)
    m = "esutil.numpy_util:"
    probe.instrument(m + "extract_fields", [_o_extract])
    probe.instrument(m + "remove_fields", [_o_remove])
    probe.instrument(m + "add_fields", [_o_add])
    probe.instrument(m + "reorder_fields", [_o_reorder])
    probe.instrument(m + "combine_fields", [_o_combine])
    probe.instrument(m + "split_fields", [_o_split])
    probe.instrument(m + "copy_fields", [], inplace=lambda a, k: {"arg1", "arr2"})
    probe.instrument(m + "copy_fields_by_name", [], inplace=lambda a, k: {"arg0", "arr"})
    probe.instrument(m + "compare_arrays", [])


def _array(rng, nfields=None, names=None):
    shape = [(), (int(rng.integers(1, 6)),), (int(rng.integers(1, 40)),), (int(rng.integers(1, 5)), int(rng.integers(1, 4)))][
        int(rng.choice(4, p=[.1, .3, .35, .25]))]
    if nfields is None and names is None and rng.random() < .12:
        # a wide table (17-60 fields, as survey catalogues have): library sorts and searches behave differently
        # above small sizes
        nfields = int(rng.integers(17, 61))
        names = list(gen.NAMES) + ["col%02d" % i for i in range(40)]
    return gen.rand_table(rng, shape, nfields=nfields, kinds=KINDS, names=names, maxsub=2)


def _container(rng, names, allow=("scalar", "list", "tuple", "array")):
    c = allow[int(rng.integers(0, len(allow)))]
    if c == "scalar":
        if len(names) != 1:
            c = "list"
        else:
            return names[0]
    if c == "list":
        return list(names)
    if c == "tuple":
        return tuple(names)
    return np.array(names)


def run_big(case):
    """tables of a million rows and more: the row-wise operations must give, row for row, what they give on short
    windows of the table"""
    import esutil.numpy_util as nu
    rng = np.random.default_rng(case["sub"])
    n = gen.big_size(rng, cap=case.get("cap"), first=case.get("first", False))
    t = np.zeros(n, dtype=[("id", "<i4"), ("x", ">f8"), ("tag", "S3"), ("v", "<i2", (2,))])
    t["id"] = np.arange(n) % 100003
    t["x"] = np.arange(n) * 0.25
    t["tag"] = np.array([b"a", b"bc", b"xyz"])[np.arange(n) % 3]
    t["v"][:, 0] = np.arange(n) % 7
    win = gen.windows(rng, n)
    COL.sample({"family": "big", "n": n}, limit=2)

    def same(a, b):
        return a.dtype == b.dtype and a.shape == b.shape and all(np.array_equal(a[k], b[k]) for k in a.dtype.names)
    for label, f in (("extract_fields", lambda a: nu.extract_fields(a, ["x", "id"])), ("remove_fields", lambda a: nu.remove_fields(a, ["tag"])),
                     ("reorder_fields", lambda a: nu.reorder_fields(a, ["v", "x"])),
                     ("add_fields", lambda a: nu.add_fields(a, [("w", "f4"), ("n", "S2")], defaults=[1.5, "no"]))):
        probe.big_vs_windows("C07.extract" if label == "extract_fields" else "C07." + label.split("_")[0], label, f, [t], win, same=same)


def run_case(case):
    if case["family"] == "big":
        return run_big(case)
    import esutil.numpy_util as nu
    rng = np.random.default_rng(case["sub"])
    fam = case["family"]
    arr = gen.maybe_view(rng, _array(rng), p=0.25)     # 1-d tables are sometimes a non-contiguous view of a larger buffer
    names = list(arr.dtype.names)
    COL.sample({"family": fam, "descr": repr(arr.dtype.descr)[:200], "shape": list(arr.shape)}, limit=8)
    if fam in ("extract", "reorder", "remove"):
        sels = []
        if len(names) <= 4 and rng.random() < .5:
            for r in range(1, len(names) + 1):
                for p in (itertools.permutations(names, r) if fam != "remove" else itertools.combinations(names, r)):
                    sels.append(list(p))
        else:
            for _ in range(4):
                k = int(rng.integers(1, len(names) + 1))
                sels.append([names[i] for i in rng.permutation(len(names))[:k]])
        for s in sels:
            if fam == "extract":
                probe.attempt(nu.extract_fields, arr, _container(rng, s))
            elif fam == "reorder":
                probe.attempt(nu.reorder_fields, arr, _container(rng, s))
            else:
                probe.attempt(nu.remove_fields, arr, _container(rng, s, ("scalar", "list")))
        # invalid / non-strict requests: an unrelated name and near misses of existing names (longer and shorter spellings,
        # other case, trailing blank) - the longest existing name gets a suffix too
        bogus = "nope"
        longest = max(names, key=len)
        near = [c for c in (longest + "x", longest + "_err", names[0] + "2", names[-1][:-1], names[0].swapcase(), names[0] + " ",
                            longest + longest) if c and c not in names]
        for nm in [near[int(i)] for i in rng.permutation(len(near))[:3]] if near else []:
            if fam == "extract":
                probe.attempt(nu.extract_fields, arr, [names[0], nm])
                probe.attempt(nu.extract_fields, arr, _container(rng, [nm, names[-1]]), strict=False)
                probe.attempt(nu.extract_fields, arr, nm)
            elif fam == "reorder":
                probe.attempt(nu.reorder_fields, arr, _container(rng, [nm]))
                probe.attempt(nu.reorder_fields, arr, _container(rng, [names[-1], nm]), strict=False)
                probe.attempt(nu.reorder_fields, arr, nm, strict=False)
            else:
                probe.attempt(nu.remove_fields, arr, [nm])
                probe.attempt(nu.remove_fields, arr, nm)
        if fam == "extract":
            probe.attempt(nu.extract_fields, arr, [names[0], bogus])
            probe.attempt(nu.extract_fields, arr, [names[0], bogus], strict=False)
            probe.attempt(nu.extract_fields, arr, bogus, strict=False)
            probe.attempt(nu.extract_fields, arr, bogus)
            probe.attempt(nu.extract_fields, arr, names[0].lower() if names[0].lower() not in names else bogus, strict=True)
        elif fam == "reorder":
            probe.attempt(nu.reorder_fields, arr, [bogus, names[-1]])
            probe.attempt(nu.reorder_fields, arr, (bogus, names[-1]), strict=False)
        else:
            probe.attempt(nu.remove_fields, arr, list(names))
            probe.attempt(nu.remove_fields, arr, [bogus])
    elif fam == "add":
        pool = [n for n in list(gen.NAMES) + ["new%02d" % q for q in range(6)] if n not in names]
        k = int(rng.integers(1, 4))
        descr = [gen.field_descr(rng, pool[i], KINDS, maxsub=2) for i in range(k)]
        add = descr if rng.random() < .6 else np.dtype(descr)
        probe.attempt(nu.add_fields, arr, add)
        defaults = []
        for d in descr:
            ft = np.dtype([d]).fields[d[0]][0]
            if ft.base.kind in "SU":
                v = "ab"[: max(1, ft.base.itemsize // (4 if ft.base.kind == "U" else 1))]
                if ft.base.kind == "S":
                    v = v.encode()
            elif ft.base.kind == "b":
                v = True
            elif ft.base.kind in "iu":
                v = int(rng.integers(0, 100))
            else:
                v = float(rng.normal())
            if ft.shape != () and rng.random() < .5:
                v = np.full(ft.shape, v, dtype=ft.base)
            elif ft.shape == () and arr.ndim == 1 and rng.random() < .3 and ft.base.kind in "iuf":
                v = (np.arange(arr.size) + 1).astype(ft.base)
            defaults.append(v)
        probe.attempt(nu.add_fields, arr, add, defaults=defaults if (k > 1 or rng.random() < .5) else defaults[0])
        probe.attempt(nu.add_fields, arr, [(names[0], "f8")])           # existing name
        probe.attempt(nu.add_fields, arr, descr + [(names[-1], "i4")])  # existing name among new ones
    elif fam == "combine":
        k = int(rng.integers(1, 5))
        pool = list(gen.NAMES)
        rng.shuffle(pool)
        lst, used = [], 0
        shape = arr.shape
        for i in range(k):
            nf = int(rng.integers(1, 4))
            a = gen.rand_table(rng, shape, nfields=nf, kinds=KINDS, names=pool[used:used + nf], maxsub=2)
            used += nf
            lst.append(a)
        probe.attempt(nu.combine_fields, list(lst))
        if k >= 2:
            bad = list(lst)
            bad[1] = gen.rand_table(rng, (lst[0].size + 1,), nfields=1, names=[pool[used]])
            probe.attempt(nu.combine_fields, bad)        # different length
            bad = list(lst)
            bad[-1] = gen.rand_table(rng, shape, nfields=1, names=[lst[0].dtype.names[0]])
            probe.attempt(nu.combine_fields, bad)        # shared name
            # a shorter array that NumPy would broadcast into the first: one row, 0-d, one row of a 2-d table, one
            # row after none
            first = lst[0] if lst[0].size > 1 else gen.rand_table(rng, (3,), nfields=1, names=[pool[used + 1]])
            for short in ((1,), (), first.shape[-1:] if first.ndim > 1 else (1,) * (first.ndim + 0)):
                if int(np.prod(short, dtype=int)) == first.size:
                    continue
                probe.attempt(nu.combine_fields, [first, gen.rand_table(rng, short, nfields=1, names=[pool[used]])])
            probe.attempt(nu.combine_fields, [first[:0], gen.rand_table(rng, (1,), nfields=1, names=[pool[used]])])
            probe.attempt(nu.combine_fields, [gen.rand_table(rng, (1,), nfields=1, names=[pool[used]]), first])
            # the same number of records arranged differently: (2,3) with (3,2), (6,) with (2,3), (4,) with (2,2)
            sa, sb = [((2, 3), (3, 2)), ((6,), (2, 3)), ((2, 3), (6,)), ((4,), (2, 2)), ((2, 2), (4,))][int(rng.integers(0, 5))]
            probe.attempt(nu.combine_fields, [gen.rand_table(rng, sa, nfields=2, kinds=KINDS, names=pool[:2], maxsub=2),
                                              gen.rand_table(rng, sb, nfields=1, kinds=KINDS, names=pool[2:3], maxsub=2)])
    elif fam == "copy":
        # destination shares some fields (same or castable type), has own fields
        k = int(rng.integers(1, len(names) + 1))
        common = [names[i] for i in rng.permutation(len(names))[:k]]
        descr = [d for d in arr.dtype.descr if d[0] in common]
        extra = [n for n in list(gen.NAMES) + ["new%02d" % q for q in range(6)] if n not in names][:2]
        descr = [(extra[0], "<i4")] + descr + [(extra[1], "S3")]
        dst = np.zeros(arr.shape, dtype=descr)
        gen.fill(rng, dst)
        before = dst.copy()
        r, e = probe.attempt(nu.copy_fields, arr, dst)
        wit = _wit(arr, dst=repr(descr)[:200])
        if e is not None:
            COL.violation("C07.copy", "copy_fields raised %r" % e, wit)
        elif all(gen.same_field(arr, dst, n) for n in common) and all(gen.same_field(before, dst, n) for n in extra):
            COL.ok("C07.copy", ("copy_fields", arr.ndim, len(common)))
        else:
            COL.violation("C07.copy", "copy_fields: common fields not equal afterwards or other fields changed", wit)
        r, e = probe.attempt(nu.copy_fields, arr, np.zeros(arr.size + 1, dtype=arr.dtype))
        if e is None:
            COL.violation("C07.copy", "copy_fields between arrays of different size accepted", wit)
        # copy_fields_by_name
        dst2 = arr.copy()
        tgt = [n for n in names if arr.dtype.fields[n][0].base.kind in "iuf" and arr.dtype.fields[n][0].shape == ()][:2]
        if tgt:
            vals = [int(rng.integers(0, 100)) for _ in tgt]
            r, e = probe.attempt(nu.copy_fields_by_name, dst2, tgt if len(tgt) > 1 else tgt[0], vals if len(tgt) > 1 else vals[0])
            okk = e is None and all(np.all(dst2[n] == v) for n, v in zip(tgt, vals)) and \
                all(gen.same_field(arr, dst2, n) for n in names if n not in tgt)
            if okk:
                COL.ok("C07.copy", ("copy_fields_by_name", arr.ndim, len(tgt)))
            else:
                COL.violation("C07.copy", "copy_fields_by_name: %r" % (e or "values not stored / other fields changed"), wit)
    elif fam == "split":
        probe.attempt(nu.split_fields, arr)
        k = int(rng.integers(1, len(names) + 1))
        s = [names[i] for i in rng.permutation(len(names))[:k]]
        probe.attempt(nu.split_fields, arr, fields=s if (k > 1 or rng.random() < .5) else s[0], getnames=bool(rng.integers(0, 2)))
        probe.attempt(nu.split_fields, arr, fields=["nope"])
        probe.attempt(nu.split_fields, arr, fields=[max(names, key=len) + "x"])
    elif fam == "compare":
        shape = arr.shape
        arr = gen.rand_table(rng, shape, kinds=gen.INTS + ["S", "U", "?"], maxsub=2)
        names = list(arr.dtype.names)
        other = arr.copy()
        mode = int(rng.integers(0, 4))
        exp = True
        ignore = bool(rng.integers(0, 2))
        cmpable = [n for n in names if arr.dtype.fields[n][0].base.kind in "iuSUb"]
        if mode == 1 and cmpable and arr.size:
            n = cmpable[int(rng.integers(0, len(cmpable)))]
            flat = other[n].reshape(-1)
            old = flat[0].copy()
            flat[0] = (old + 1) if flat.dtype.kind in "iu" else (not old if flat.dtype.kind == "b" else (b"#" if flat.dtype.kind == "S" else "#"))
            exp = bool(np.all(other[n] == arr[n]))
        elif mode == 2 and len(names) > 1:
            other = nu.remove_fields.__wrapped__(other, names[-1]) if hasattr(nu.remove_fields, "__wrapped__") else other
            exp = bool(ignore) if other.dtype.names != arr.dtype.names else True
        # fields with NaN bit patterns never compare equal: restrict to comparable fields
        a1 = arr[cmpable] if False else arr
        floaty = [n for n in names if arr.dtype.fields[n][0].base.kind in "fc"]
        if floaty:
            return   # raw float bytes may hold NaN: equality is not reflexive, outcome not defined by the statement
        r, e = probe.attempt(nu.compare_arrays, arr, other, ignore_missing=ignore)
        if e is not None:
            COL.violation("C07.compare", "compare_arrays raised %r" % e, _wit(arr))
        elif bool(r) == exp:
            COL.ok("C07.compare", ("compare", mode, ignore, exp, arr.ndim))
        else:
            COL.violation("C07.compare", "compare_arrays returned %r, expected %r (mode %d, ignore_missing=%r)" % (r, exp, mode, ignore), _wit(arr))
