"""C13 HTM ids are hierarchical and cover circles; pair counts equal brute force."""
import numpy as np

from vlib import gen, probe
from vlib.probe import COL
from vlib.props import htmshared as H
from vlib.refs import sphere as S

ID = "C13"
NATIVE = True
SAN_STRIDE = {"quick": 3, "thorough": 4}
RULE = ("ids: positions uniform, at both poles, on octant boundaries (ra multiples of 90, dec 0 and +-1e-9), on the seam, "
        "outside [0,360), at depths 0-20 (range, parent/child across all consecutive depths, scalar vs array, "
        "byte-swapped/strided/float32/list inputs); circles: radii 1e-4-90 deg at depths 1-12 under the 2e4-triangle "
        "bound with own samplers inside the cap and in an annulus outside; pair counts: point sets as in C12 with "
        "(rmin, rmax, nbin) over up to 3 decades, separations straddling rmin and rmax, coincident points, scale "
        "None / scalar / per point, precomputed ids and reverse indices in several integer layouts; every observed "
        "bincount call is compared with a brute-force long-double count.  signature = (monitor-specific tuple of "
        "depth, radius decade, family, scale form, precomputed form)")
TRUSTED = ["numpy long-double trigonometry and log10", "the monitored lookup_id as the meaning of 'the triangle of a position' in the coverage oracle"]
ASSUMPTIONS = ["positions within 1e-9 deg of the circle and pairs within 1e-9 (relative) of a bin edge are not constrained (statement)",
               "(radius, depth) combinations are bounded by 2e4 triangles per circle"]
THOROUGH_ROUNDS = 2      # the thorough tier runs the generator over this many derived seeds
REQUIRED = {"quick": {"C13.ids": 30000, "C13.cover": 20000, "C13.bincount": 1200}, "thorough": {"C13.ids": 400000, "C13.cover": 300000, "C13.bincount": 18000}}
WATCHDOG = {"quick": 1200, "thorough": 7200}
CASE_TIMEOUT = 600
LD = np.longdouble


def cases(seed, tier):
    n = 560 if tier == "quick" else 8000
    rng = np.random.default_rng([seed, 13])
    fams = ["ids", "cover", "bincount", "cover", "bincount", "bincount-edges", "tangent"]
    for i in range(n):
        yield {"family": fams[i % len(fams)], "sub": int(rng.integers(0, 2**31))}
    for i in range(1 if tier == "quick" else 6):
        yield {"family": "big", "sub": int(rng.integers(0, 2**31)), "first": i == 0, "cap": 2 ** 21 + 1 if tier == "quick" else 5 * 10 ** 6 + 3}


# ---------------------------------------------------------------------------------------------------------------

def on_bincount(call):
    if call.exc is not None:
        return
    h = call.args[0]
    names = ["rmin", "rmax", "nbin", "ra1", "dec1", "ra2", "dec2", "scale", "htmid2", "htmrev2", "minid", "maxid", "getbins"]
    a = {nm: call.arg(i + 1, nm, None if nm != "getbins" else True) for i, nm in enumerate(names)}
    ra1, dec1, ra2, dec2 = [np.atleast_1d(np.array(a[k], dtype="f8")) for k in ("ra1", "dec1", "ra2", "dec2")]
    if ra1.size * ra2.size > 400000:
        COL.skipped("C13.bincount", "too-large-for-brute-force")
        return
    rmin, rmax, nbin = float(a["rmin"]), float(a["rmax"]), int(a["nbin"])
    res = call.result
    counts = np.asarray(res[2] if a["getbins"] else res)
    sep = H.sep_matrix(ra1, dec1, ra2, dec2)          # degrees, long double
    if a["scale"] is None:
        r = sep
        sform = "none"
    else:
        sc = np.atleast_1d(np.array(a["scale"], dtype="f8")).astype(LD)
        sform = "scalar" if sc.size == 1 else "array"
        r = sep * S.D2R * (sc[:, None] if sc.size > 1 else sc[0])
    lrmin, lrmax = np.log10(LD(rmin)), np.log10(LD(rmax))
    delta = (lrmax - lrmin) / nbin
    with np.errstate(divide="ignore", invalid="ignore"):
        x = (np.log10(r) - lrmin) / delta            # bin coordinate; -inf for coincident points
        fl = np.floor(x)
        near_edge = np.abs(x - np.round(x)) * delta * np.log(LD(10)) <= 1e-9     # |dr/r| <= 1e-9 of an edge
    near_edge &= (np.round(x) >= 0) & (np.round(x) <= nbin)
    definite = (~near_edge) & np.isfinite(x) & (fl >= 0) & (fl < nbin)
    lo = np.zeros(nbin, dtype="i8")
    np.add.at(lo, fl[definite].astype("i8"), 1)
    hi = lo.copy()
    # a pair near an edge may be counted in either neighbouring bin (or outside at the ends)
    xe = np.round(x[near_edge]).astype("i8")
    for e in xe.tolist():
        for b in (e - 1, e):
            if 0 <= b < nbin:
                hi[b] += 1
    wit = {"rmin": rmin, "rmax": rmax, "nbin": nbin, "n1": int(ra1.size), "n2": int(ra2.size), "scale": sform, "depth": int(h.get_depth()),
           "precomputed": [k for k in ("htmid2", "htmrev2") if a[k] is not None], "counts": counts.tolist()[:20],
           "brute_force": lo.tolist()[:20], "near_edge_pairs": int(near_edge.sum())}
    case = COL.case or {}
    sig = (case.get("family"), sform, tuple(wit["precomputed"]), int(h.get_depth()), nbin if nbin < 4 else "n", "coincident" if np.isinf(x).any() else "")
    if counts.shape != (nbin,):
        COL.violation("C13.bincount", "counts have shape %r for nbin=%d" % (counts.shape, nbin), wit)
        return
    bad = np.nonzero((counts < lo) | (counts > hi))[0]
    if bad.size:
        b = int(bad[0])
        key = None
        below = np.isfinite(x) & (x < 0) & (x > -1)
        if b == 0 and counts[0] > hi[0] and counts[0] <= hi[0] + int(below.sum()):
            key = "bincount/int-cast-counts-below-rmin-in-bin-0"
        COL.violation("C13.bincount", "bin %d holds %d pairs, brute force %d%s (counts %r vs %r)" % (
            b, counts[b], lo[b], "" if hi[b] == lo[b] else "..%d" % hi[b], counts.tolist()[:12], lo.tolist()[:12]), wit, key=key)
        return
    if a["getbins"]:
        lower, upper = np.asarray(res[0]), np.asarray(res[1])
        el = 10.0 ** (np.log10(rmin) + (np.log10(rmax) - np.log10(rmin)) / nbin * np.arange(nbin + 1))
        if lower.shape != (nbin,) or not (np.allclose(lower, el[:-1], rtol=1e-12) and np.allclose(upper, el[1:], rtol=1e-12)):
            COL.violation("C13.bincount", "returned bin edges are not the logarithmic edges between rmin and rmax", wit)
            return
    COL.ok("C13.bincount", sig + (("pairs" if lo.sum() else "no-pairs"),))
    I = COL.info
    I["bincount_pairs_counted"] = I.get("bincount_pairs_counted", 0) + int(lo.sum())
    I["bincount_pairs_near_edge_unconstrained"] = I.get("bincount_pairs_near_edge_unconstrained", 0) + int(near_edge.sum())
    I["bincount_pairs_below_rmin"] = I.get("bincount_pairs_below_rmin", 0) + int((np.isfinite(x) & (x < 0)).sum())
    I["bincount_coincident_pairs"] = I.get("bincount_coincident_pairs", 0) + int(np.isinf(x).sum())


def install():
    probe.enable_argflip({"HTM.bincount": lambda a, k: not any(x in k for x in ("htmid2", "htmrev2", "scale")), "HTM.lookup_id": None}, every=3)
    probe.enable_recall("C13.recall", every=5)
    probe.instrument("esutil.htm.htm:HTM.lookup_id", [])
    probe.instrument("esutil.htm.htm:HTM.intersect", [])
    probe.instrument("esutil.htm.htm:HTM.bincount", [on_bincount])


# ---------------------------------------------------------------------------------------------------------------

def special_positions(rng, n):
    ra, dec = H.uniform(rng, n)
    k = rng.integers(0, 12, size=n)
    ra = np.where(k == 0, rng.choice([0.0, 90.0, 180.0, 270.0, 360.0], size=n), ra)
    dec = np.where(k == 0, rng.choice([0.0, 1e-9, -1e-9, 90.0, -90.0], size=n), dec)
    dec = np.where(k == 1, 90.0, dec)
    dec = np.where(k == 2, -90.0, dec)
    dec = np.where(k == 3, rng.choice([0.0, 35.26438968275466, -35.26438968275466, 45.0], size=n), dec)
    ra = np.where(k == 4, rng.choice([0.0, 360.0, 359.9999999999, 1e-12], size=n), ra)
    ra = np.where(k == 5, ra - 360.0, ra)          # outside the principal range
    ra = np.where(k == 6, ra + 360.0, ra)
    ra = np.where(k == 7, rng.choice([45.0, 135.0, 225.0, 315.0], size=n), ra)
    # vertices of the mesh at every level: the edges of the root octants are subdivided at their midpoints, so the
    # positions ra = 90 j / 2^m on the equator and dec = +-90 j / 2^m on the meridians ra in {0, 90, 180, 270} are
    # corners shared by up to six triangles of level m (and of every deeper level); they are exact in float64
    m = rng.integers(1, 9, size=n)
    j = (rng.integers(1, 2 ** 8, size=n) % (2 ** m)).astype("f8")
    frac = 90.0 * j / 2.0 ** m
    ra = np.where(k == 8, rng.choice([0.0, 90.0, 180.0, 270.0], size=n) + frac, ra)
    dec = np.where(k == 8, 0.0, dec)
    ra = np.where(k == 9, rng.choice([0.0, 90.0, 180.0, 270.0, 360.0], size=n), ra)
    dec = np.where(k == 9, rng.choice([-1.0, 1.0], size=n) * frac, dec)
    # corners and edge points of triangles inside the octants (not exact in float64: within an ulp of the edge)
    for i in np.nonzero(k >= 10)[0]:
        d = int(rng.integers(1, 7))
        tid = int(rng.integers(8 * 4 ** d, 16 * 4 ** d))
        c = H.triangle_corners(tid, d)
        if k[i] == 10:
            v = c[int(rng.integers(0, 3))]
        else:
            a_, b_ = c[int(rng.integers(0, 3))], c[int(rng.integers(0, 3))]
            t = LD(rng.choice([0.5, 0.25, 0.75, rng.uniform(0, 1)]))
            v = a_ * (1 - t) + b_ * t
            v = v / np.sqrt((v * v).sum())
        lon, lat = S.lonlat(v[:, None])
        ra[i], dec[i] = float(lon[0]) % 360.0, float(np.clip(lat[0], -90, 90))
    return ra, dec


def run_ids(case, rng):
    from esutil import htm
    n = int(rng.choice([1, 5, 25, 40, 60]))
    ra, dec = special_positions(rng, n)
    wit = {"n": n}
    prev = None
    for depth in range(0, 21):
        h, e = probe.attempt(htm.HTM, depth)
        if e is not None:
            COL.violation("C13.ids", "HTM(%d) raised %s: %s" % (depth, type(e).__name__, str(e)[:100]), wit)
            return
        ids, e = probe.attempt(h.lookup_id, ra, dec)
        if e is not None:
            COL.violation("C13.ids", "lookup_id at depth %d raised %s: %s" % (depth, type(e).__name__, str(e)[:100]), wit)
            return
        ids = np.asarray(ids)
        lo, hi = 8 * 4 ** depth, 16 * 4 ** depth
        w = dict(wit, depth=depth)
        bad = None
        if ids.shape != (n,) or ids.dtype.kind != "i":
            bad = "ids have shape %r dtype %s" % (ids.shape, ids.dtype)
        elif (ids < lo).any() or (ids >= hi).any():
            i = int(np.nonzero((ids < lo) | (ids >= hi))[0][0])
            bad = "id %d of (%.12g, %.12g) is outside [%d, %d)" % (ids[i], ra[i], dec[i], lo, hi)
        elif prev is not None and (ids // 4 != prev).any():
            i = int(np.nonzero(ids // 4 != prev)[0][0])
            bad = "id %d at depth %d is not a child of id %d at depth %d for (%.12g, %.12g)" % (ids[i], depth, prev[i], depth - 1, ra[i], dec[i])
        if bad:
            COL.violation("C13.ids", bad, w)
            return
        COL.ok("C13.ids", ("range+child", depth), n=n)
        prev = ids
        # scalar vs array, other input forms
        j = int(rng.integers(0, n))
        forms = [("scalar", float(ra[j]), float(dec[j]), ids[j:j + 1]), ("np-scalar", np.float64(ra[j]), np.float64(dec[j]), ids[j:j + 1]),
                 ("list", ra.tolist(), dec.tolist(), ids), ("swapped", ra.astype(">f8"), dec.astype(">f8"), ids),
                 ("strided", np.repeat(ra, 2)[::2], np.repeat(dec, 2)[::2], ids), ("0d", np.array(ra[j]), np.array(dec[j]), ids[j:j + 1])]
        for nm, a, b, exp in [forms[int(i)] for i in rng.permutation(len(forms))[:3]]:
            got, e = probe.attempt(h.lookup_id, a, b)
            if e is not None:
                COL.violation("C13.ids", "lookup_id(%s) at depth %d raised %s: %s" % (nm, depth, type(e).__name__, str(e)[:100]), w)
            elif not np.array_equal(np.atleast_1d(got), exp):
                COL.violation("C13.ids", "lookup_id(%s input) = %r differs from the array call %r at depth %d" % (nm, np.atleast_1d(got)[:3], exp[:3], depth), w)
            else:
                COL.ok("C13.ids", ("form", nm, depth))
        if depth in (5, 12):
            f4 = ra.astype("f4"), dec.astype("f4")
            got, e = probe.attempt(h.lookup_id, f4[0], f4[1])
            exp, e2 = probe.attempt(h.lookup_id, f4[0].astype("f8"), f4[1].astype("f8"))
            if e is not None or e2 is not None or not np.array_equal(got, exp):
                COL.violation("C13.ids", "float32 input gives other ids than the same values as float64 (depth %d)" % depth, w)
            else:
                COL.ok("C13.ids", ("form", "f4", depth))


def run_cover(case, rng):
    from esutil import htm
    kind = ["any", "northpole", "southpole", "seam", "octant", "any"][int(rng.integers(0, 6))]
    ra0, dec0 = H.centre(rng, kind)
    r = float(10 ** rng.uniform(-4, np.log10(90))) if rng.random() < .9 else float(rng.choice([1e-4, 90.0, 45.0]))
    dmax = min(H.max_depth(r), 12)
    for depth in sorted(set([int(rng.integers(1, dmax + 1)), dmax])):
        h = htm.HTM(depth)
        wit = {"ra": ra0, "dec": dec0, "radius": r, "depth": depth, "centre": kind}
        inc, e1 = probe.attempt(h.intersect, ra0, dec0, r)
        exc, e2 = probe.attempt(h.intersect, ra0, dec0, r, inclusive=False)
        if e1 is not None or e2 is not None:
            COL.violation("C13.cover", "intersect raised %r / %r" % (e1, e2), wit)
            return
        inc, exc = np.asarray(inc), np.asarray(exc)
        lo, hi = 8 * 4 ** depth, 16 * 4 ** depth
        sig = (depth, int(np.floor(np.log10(r))), kind)
        bad = None
        if np.unique(inc).size != inc.size or np.unique(exc).size != exc.size:
            bad = "a triangle id is listed twice"
        elif inc.size and (inc.min() < lo or inc.max() >= hi):
            bad = "an id is outside the valid range for depth %d" % depth
        elif not np.isin(exc, inc).all():
            bad = "a fully-inside triangle is missing from the inclusive list"
        if bad:
            COL.violation("C13.cover", bad, wit)
            return
        # own samplers: inside the cap (denser towards the rim), and an annulus outside
        nin, nout = 250, 250
        din = r * np.concatenate([np.sqrt(rng.uniform(0, 1, size=nin - 60)), 1 - 10 ** rng.uniform(-9, -1, size=50), np.zeros(10)])
        pin = H.offset(rng, ra0, dec0, np.clip(din, 0, None), n=nin)
        dout = np.minimum(r * (1 + 10 ** rng.uniform(-9, 0.5, size=nout)), 180.0)
        pout = H.offset(rng, ra0, dec0, dout, n=nout)
        sin_ = H.sep_matrix([ra0], [dec0], pin[0], pin[1])[0]
        sout = H.sep_matrix([ra0], [dec0], pout[0], pout[1])[0]
        win = sin_ <= LD(r) - 1e-9
        wout = sout > LD(r) + 1e-9
        ids_in = h.lookup_id(pin[0], pin[1])
        ids_out = h.lookup_id(pout[0], pout[1])
        cid = h.lookup_id(ra0, dec0)[0]
        if cid not in set(inc.tolist()):
            COL.violation("C13.cover", "the centre's own triangle %d is not in the inclusive list (%d ids)" % (cid, inc.size), wit)
            return
        miss = win & ~np.isin(ids_in, inc)
        if miss.any():
            i = int(np.nonzero(miss)[0][0])
            COL.violation("C13.cover", "position (%.12g, %.12g) at %.12g deg from the centre is inside the circle of %.12g deg but its triangle %d is "
                          "not in the inclusive list" % (pin[0][i], pin[1][i], float(sin_[i]), r, ids_in[i]), dict(wit, n_missing=int(miss.sum())))
            return
        COL.ok("C13.cover", ("inside",) + sig, n=int(win.sum()))
        wrong = wout & np.isin(ids_out, exc)
        if wrong.any():
            i = int(np.nonzero(wrong)[0][0])
            COL.violation("C13.cover", "position (%.12g, %.12g) at %.12g deg is outside the circle of %.12g deg but lies in triangle %d reported as "
                          "fully inside" % (pout[0][i], pout[1][i], float(sout[i]), r, ids_out[i]), wit)
            return
        COL.ok("C13.cover", ("outside", "with-full" if exc.size else "no-full") + sig, n=int(wout.sum()))
        COL.info["cover_full_triangles_seen"] = COL.info.get("cover_full_triangles_seen", 0) + int(exc.size)
        COL.info["cover_partial_triangles_seen"] = COL.info.get("cover_partial_triangles_seen", 0) + int(inc.size - exc.size)


def run_tangent(case, rng):
    """Circles whose rim passes just inside / just outside a corner of a triangle: the two places where the lists can
    go wrong by less than any random position would show.  A position q is placed inside triangle T next to one of
    its corners (T = the library's own lookup_id(q), re-asked; a q that lands elsewhere is dropped) and the radius is
    its distance from the centre minus / plus a margin between 1e-8 and 5e-6 degrees."""
    from esutil import htm
    kind = ["any", "northpole", "southpole", "seam", "octant", "any"][int(rng.integers(0, 6))]
    ra0, dec0 = H.centre(rng, kind)
    r0 = float(10 ** rng.uniform(-2, np.log10(80)))
    depth = int(rng.integers(1, min(H.max_depth(r0 * 1.05), 12) + 1))
    h = htm.HTM(depth)
    wit = {"ra": ra0, "dec": dec0, "radius0": r0, "depth": depth, "centre": kind}
    inc0, e = probe.attempt(h.intersect, ra0, dec0, r0)
    if e is not None:
        COL.violation("C13.cover", "intersect raised %r" % e, wit)
        return
    inc0 = np.asarray(inc0)
    cvec = S.unit([ra0], [dec0])
    for tid in rng.choice(inc0, size=min(6, inc0.size), replace=False):
        corners = H.triangle_corners(tid, depth)
        cen = corners.sum(axis=0)
        cen = cen / np.sqrt((cen * cen).sum())
        dc = np.array([float(S.sep_vec(cvec, c[:, None])[0]) for c in corners])
        for which in ("far", "near"):
            k = int(np.argmax(dc) if which == "far" else np.argmin(dc))
            margin = float(10 ** rng.uniform(-8, -5.3))
            # q: a tenth of the margin inside the triangle from the corner, towards the centroid
            side = float(S.sep_vec(corners[k][:, None], cen[:, None])[0])
            t = LD(margin / 10) / LD(max(side, 1e-12))
            q = corners[k] * (1 - t) + cen * t
            q = q / np.sqrt((q * q).sum())
            lon, lat = S.lonlat(q[:, None])
            qra, qdec = float(lon[0]) % 360.0, float(np.clip(lat[0], -90, 90))
            if int(h.lookup_id(qra, qdec)[0]) != int(tid):
                COL.skipped("C13.cover", "tangent/position-not-in-intended-triangle")
                continue
            dq = float(H.sep_matrix([ra0], [dec0], [qra], [qdec])[0, 0])
            if which == "far":
                r = dq - margin          # q is outside the circle by `margin`: its triangle is not fully inside
                if not (1e-3 < r < 90):
                    continue
                lst, e = probe.attempt(h.intersect, ra0, dec0, r, inclusive=False)
                bad = e is None and int(tid) in set(np.asarray(lst).tolist())
                what = "position (%.12g, %.12g) at %.12g deg is outside the circle of %.12g deg (by %.3g) but lies in triangle %d reported as " \
                       "fully inside" % (qra, qdec, dq, r, margin, tid)
            else:
                r = dq + margin          # q is inside the circle by `margin`: its triangle must be listed
                if not (1e-3 < r < 90):
                    continue
                lst, e = probe.attempt(h.intersect, ra0, dec0, r)
                bad = e is None and int(tid) not in set(np.asarray(lst).tolist())
                what = "position (%.12g, %.12g) at %.12g deg is inside the circle of %.12g deg (by %.3g) but its triangle %d is not in " \
                       "the inclusive list" % (qra, qdec, dq, r, margin, tid)
            if e is not None:
                COL.violation("C13.cover", "intersect raised %r" % e, dict(wit, radius=r))
            elif bad:
                COL.violation("C13.cover", what, dict(wit, radius=r, tangent=which))
            else:
                COL.ok("C13.cover", ("tangent", which, depth, int(np.floor(np.log10(r))), kind))


def run_bincount(case, rng, edges=False):
    from esutil import htm, stat
    n1 = int(rng.choice([1, 3, 20, 80, 150]))
    n2 = int(rng.choice([1, 5, 40, 150, 300]))
    kind = ["any", "northpole", "southpole", "seam", "octant", "any"][int(rng.integers(0, 6))]
    ra0, dec0 = H.centre(rng, kind)
    sform = ["none", "scalar", "array"][int(rng.integers(0, 3))]
    scale = None
    # angular rmax (degrees) first, then the linear units
    amax = float(10 ** rng.uniform(-3, 1))
    decades = float(rng.uniform(0.5, 3))
    nbin = int(rng.choice([1, 2, 3, 7, 20]))
    if sform == "none":
        rmin, rmax = amax / 10 ** decades, amax
        eff = np.full(n1, 1.0)
        unit = 1.0
    else:
        s0 = float(10 ** rng.uniform(1, 3.5))
        scale = s0 if sform == "scalar" else s0 * rng.uniform(0.5, 2.0, size=n1)
        rmax = float(np.radians(amax) * s0)
        rmin = rmax / 10 ** decades
        unit = np.radians(1.0) * s0
    ra2, dec2 = H.cluster(rng, ra0, dec0, amax * 3, n2)
    k = rng.integers(0, n2, size=n1)
    # separations spread in log over [rmin/10, rmax*2], some deliberately just below rmin / above rmax, some coincident
    target = 10 ** rng.uniform(np.log10(rmin) - 1, np.log10(rmax) + 0.3, size=n1)
    if edges:
        el = 10 ** (np.log10(rmin) + (np.log10(rmax) - np.log10(rmin)) / nbin * rng.integers(0, nbin + 1, size=n1))
        target = el * rng.choice([1 - 1e-3, 1 - 1e-6, 1 + 1e-6, 1 + 1e-3, 0.7, 0.97], size=n1)
    ra1, dec1 = H.offset(rng, ra2[k], dec2[k], target / unit)
    if n1 > 2 and rng.random() < .5:
        ra1[0], dec1[0] = ra2[k[0]], dec2[k[0]]            # coincident pair: separation exactly 0
    amax_scale = 1.0
    if rng.random() < .3:
        # catalogue 1 holds the same position several times in a row; with a per-point scale each entry has its own search
        # radius (growing, shrinking or random along the run)
        reps = rng.integers(2, 5, size=n1)
        ra1, dec1 = np.repeat(ra1, reps), np.repeat(dec1, reps)
        if sform == "array":
            scale = np.repeat(scale, reps) * np.concatenate([
                {0: np.sort, 1: lambda v: np.sort(v)[::-1], 2: lambda v: v}[int(rng.integers(0, 3))](rng.uniform(0.5, 2.0, size=kk)) for kk in reps])
            amax_scale = 2.0
        n1 = int(ra1.size)
    if edges and rng.random() < .5:
        # rmax := the separation of an actual pair, so that a pair sits on the last edge to within rounding (such a
        # pair is unconstrained in the counts, but it must not be counted one past the end of the counts array)
        sm = H.sep_matrix(ra1, dec1, ra2, dec2)
        i, j = int(rng.integers(0, n1)), int(rng.integers(0, n2))
        sij = float(sm[i, j]) if sform == "none" else float(sm[i, j] * S.D2R * (scale if sform == "scalar" else scale[i]))
        if sij > rmin * 1.5:
            rmax = sij
    amax_eff = (rmax / unit) * (2.0 if sform == "array" else 1.0) * amax_scale
    # bincount histograms the ids of the second set with unit bins: its cost grows with the id *range*, which spans
    # most of 8*4^depth when the set straddles an octant boundary or a pole, so the depth is kept <= 9 (2e6 ids)
    DMAX = 9
    depth = int(rng.integers(1, min(H.max_depth(min(amax_eff * 1.01, 180.0)), DMAX) + 1))
    h = htm.HTM(depth)
    wit = {"n1": n1, "n2": n2, "rmin": rmin, "rmax": rmax, "nbin": nbin, "scale": sform, "depth": depth}
    COL.sample(wit, limit=8)
    kw = {} if scale is None else {"scale": scale}
    base, e = probe.attempt(h.bincount, rmin, rmax, nbin, ra1, dec1, ra2, dec2, **kw)
    if e is not None:
        COL.violation("C13.bincount", "bincount raised %s: %s" % (type(e).__name__, str(e)[:140]), wit)
        return
    # precomputed ids / reverse indices must not change the counts
    ids = h.lookup_id(ra2, dec2)
    hist, rev = stat.histogram(ids - ids.min(), rev=True)
    variants = [("ids", dict(htmid2=ids)), ("ids+rev", dict(htmid2=ids, htmrev2=rev, minid=int(ids.min()), maxid=int(ids.max()))),
                ("rev+minmax", dict(htmrev2=rev, minid=int(ids.min()), maxid=int(ids.max()))),
                ("ids-i4+rev-swapped", dict(htmid2=ids.astype("i8")[::1].astype(">i8"), htmrev2=rev.astype(">i8"), minid=int(ids.min()), maxid=int(ids.max()))),
                ("ids-list+rev-strided", dict(htmid2=ids.tolist(), htmrev2=np.repeat(rev, 2)[::2], minid=int(ids.min()), maxid=int(ids.max()))),
                ("getbins=False", dict(getbins=False)), ("views", {})]
    for nm, kv in variants:
        pos = (ra1, dec1, ra2, dec2)
        if nm == "views":
            # the same coordinates (and per-point scale) handed over as non-contiguous views
            pos = tuple(gen.as_view(rng, a)[0] for a in pos)
            if isinstance(scale, np.ndarray):
                kv = dict(scale=gen.as_view(rng, scale)[0])
        res, e = probe.attempt(h.bincount, rmin, rmax, nbin, *pos, **dict(kw, **kv))
        if e is not None:
            COL.violation("C13.bincount", "bincount(%s) raised %s: %s" % (nm, type(e).__name__, str(e)[:140]), wit)
            continue
        c = res if nm == "getbins=False" else res[2]
        if not np.array_equal(c, base[2]):
            COL.violation("C13.bincount", "bincount with %s gives counts %r, without %r" % (nm, np.asarray(c).tolist()[:10], base[2].tolist()[:10]), wit)
    # another depth gives the same counts (up to near-edge pairs judged by the wrapper)
    d2 = int(rng.integers(1, min(H.max_depth(min(amax_eff * 1.01, 180.0)), DMAX) + 1))
    probe.attempt(htm.HTM(d2).bincount, rmin, rmax, nbin, ra1, dec1, ra2, dec2, **kw)


def run_big(case, rng):
    from esutil import htm
    n = gen.big_size(rng, cap=case.get("cap"), first=case.get("first", False))
    ra, dec = H.uniform(rng, n)
    win = gen.windows(rng, n)
    COL.sample({"family": "big", "n": n}, limit=2)
    for depth in (int(rng.integers(1, 8)), int(rng.integers(8, 21))):
        probe.big_vs_windows("C13.ids", "lookup_id", htm.HTM(depth).lookup_id, [ra, dec], win, wit={"depth": depth})
    # pair counts are additive over the first catalogue: a first catalogue of more than a million points (in a small
    # patch, a handful of second points) must give the sum of the counts of its pieces, with none / a scalar / a per-point
    # scale (the pieces, of at most 2^17 points, go through the ordinary path that the brute-force oracle judges)
    c_ra, c_dec = float(rng.uniform(0, 360)), float(rng.uniform(-60, 60))
    ra1 = c_ra + rng.uniform(-1, 1, size=n)
    dec1 = c_dec + rng.uniform(-1, 1, size=n)
    ra2, dec2 = c_ra + rng.uniform(-1, 1, size=24), c_dec + rng.uniform(-1, 1, size=24)
    h = htm.HTM(int(rng.integers(5, 8)))
    sform = ["none", "scalar", "array"][int(rng.integers(0, 3))] if not case.get("first") else "array"
    scale = None if sform == "none" else (57.3 if sform == "scalar" else rng.uniform(0.5, 2.0, size=n) * 57.3)
    rmin, rmax, nbin = (2e-4, 1e-2, 6) if sform != "none" else (2e-4 * 57.3 / 57.3 / 57.3, 1e-2 / 57.3 * 1.0, 6)
    if sform == "none":
        rmin, rmax = 0.01, 0.5           # degrees
    kw = {} if scale is None else {"scale": scale}
    whole, e = probe.attempt(h.bincount, rmin, rmax, nbin, ra1, dec1, ra2, dec2, getbins=False, **kw)
    if e is not None:
        COL.violation("C13.bincount", "bincount with %d first points raised %s: %s" % (n, type(e).__name__, str(e)[:120]), {"n1": n})
        return
    tot = np.zeros(nbin, dtype="i8")
    step = 2 ** 17
    for a in range(0, n, step):
        kwp = {} if scale is None else {"scale": scale if np.ndim(scale) == 0 else scale[a:a + step]}
        part = h.bincount(rmin, rmax, nbin, ra1[a:a + step], dec1[a:a + step], ra2, dec2, getbins=False, **kwp)
        tot += np.asarray(part, dtype="i8")
    if np.array_equal(np.asarray(whole, dtype="i8"), tot):
        COL.ok("C13.bincount", ("big-additive", sform, int(np.log2(n))))
    else:
        COL.violation("C13.bincount", "bincount over a first catalogue of %d points (scale: %s) gives %r, the sum over its pieces of 2^17 points %r" % (
            n, sform, np.asarray(whole).tolist(), tot.tolist()), {"n1": n, "scale": sform}, key="big-additive")


def run_case(case):
    rng = np.random.default_rng(case["sub"])
    fam = case["family"]
    if fam == "big":
        return run_big(case, rng)
    if fam == "ids":
        run_ids(case, rng)
    elif fam == "cover":
        run_cover(case, rng)
    elif fam == "tangent":
        run_tangent(case, rng)
    else:
        run_bincount(case, rng, edges=(fam == "bincount-edges"))
