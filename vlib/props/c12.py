"""C12 HTM matching returns exactly the pairs within the search radius."""
import os

import numpy as np

from vlib import probe
from vlib.probe import COL
from vlib.props import htmshared as H
from vlib.refs import sphere as S_

ID = "C12"
NATIVE = True
SAN_STRIDE = {"quick": 3, "thorough": 4}
RULE = ("seeded point-set pairs: uniform on the sphere, clustered in caps of 1e-4-30 deg, rings around both poles, "
        "straddling ra=0/360, on octant boundaries, with duplicates and self-matching, second set = first set "
        "perturbed by 0.1-2 x radius (many pairs at the boundary); radii 0, 1e-6, 1e-5..1e2, 180, scalar and per "
        "point; depth 1-13 under the cap fraction x 8 x 4^depth <= 2e4 triangle bound, each case at 2-3 depths; "
        "maxmatch in {-1, 0, 1, 2, k, > group}; coordinates native, byte-swapped, strided, float32, lists; file "
        "route + read_pairs; HTM.match vs Matcher; every observed Matcher.match call is compared with a brute-force "
        "long-double enumeration of all n1 x n2 separations.  signature = (family, radius decade, depth, maxmatch "
        "class, per-point radius, route)")
TRUSTED = ["numpy long-double trigonometry for atan2(|a x b|, a.b)"]
ASSUMPTIONS = ["pairs whose separation is within 1e-9 deg of the radius are not constrained (statement)",
               "truncation to k is judged on distances: the k-th and (k+1)-th true separations may tie within 1e-12 deg",
               "(radius, depth) combinations are bounded by 2e4 triangles per search circle (an unbounded probe ran 20 min)"]
REQUIRED = {"quick": {"C12.pairs": 900, "C12.truncate": 300, "C12.routes": 300}, "thorough": {"C12.pairs": 18000, "C12.truncate": 6000, "C12.routes": 6000}}
WATCHDOG = {"quick": 1200, "thorough": 7200}
CASE_TIMEOUT = 600
BAND = 1e-9

MATCHERS = {}          # id(Matcher) -> (ra, dec) copies taken at construction


def cases(seed, tier):
    n = 224 if tier == "quick" else 4480
    rng = np.random.default_rng([seed, 12])
    fams = ["uniform", "cap", "northpole", "southpole", "seam", "octant", "duplicates", "perturbed", "tiny-radius", "perturbed",
            "tiny-radius", "edge-straddle", "repeat-radius", "antipodal", "corner-tangent"]
    for i in range(n):
        yield {"family": fams[i % len(fams)], "sub": int(rng.integers(0, 2**31))}
    for i in range(1 if tier == "quick" else 3):
        yield {"family": "big-pair-file", "sub": int(rng.integers(0, 2**31))}


# ---------------------------------------------------------------------------------------------------------------
# online oracle

def on_matcher_init(call):
    if call.exc is None:
        ra = call.arg(2, "ra")
        dec = call.arg(3, "dec")
        MATCHERS[id(call.args[0])] = (np.atleast_1d(np.array(ra, dtype="f8")).copy(), np.atleast_1d(np.array(dec, dtype="f8")).copy())
        if len(MATCHERS) > 64:
            MATCHERS.pop(next(iter(MATCHERS)))


def judge_pairs(m1, m2, d12, ra1, dec1, ra2, dec2, radius, maxmatch, wit, sig, monitor="C12.pairs"):
    """m1,m2,d12: the pairs as returned; ra1..: float64 inputs; radius: array of size 1 or n1"""
    n1, n2 = ra1.size, ra2.size
    S = H.sep_matrix(ra1, dec1, ra2, dec2)
    r = np.broadcast_to(np.asarray(radius, dtype="f8"), (n1,)).astype(np.longdouble)[:, None]
    inside = S <= r - BAND
    outside = S > r + BAND
    ident = (ra1[:, None] == ra2[None, :]) & (dec1[:, None] == dec2[None, :]) & (r >= 0)
    inside = inside | ident
    m1 = np.asarray(m1)
    m2 = np.asarray(m2)
    d12 = np.asarray(d12, dtype="f8")
    bad = None
    if not (m1.shape == m2.shape == d12.shape) or m1.ndim != 1:
        bad = "result arrays have shapes %r %r %r" % (m1.shape, m2.shape, d12.shape)
    elif m1.size and (m1.min() < 0 or m1.max() >= n1 or m2.min() < 0 or m2.max() >= n2):
        bad = "an index is outside its point set"
    if bad:
        COL.violation(monitor, bad, wit)
        return None
    got = np.zeros((n1, n2), dtype=np.int32)
    np.add.at(got, (m1, m2), 1)
    nband = int((~inside & ~outside).sum())
    if (got > 1).any():
        i, j = map(int, np.argwhere(got > 1)[0])
        bad = "pair (%d,%d) is returned %d times" % (i, j, got[i, j])
    elif (got.astype(bool) & outside).any():
        i, j = map(int, np.argwhere(got.astype(bool) & outside)[0])
        bad = "extra pair (%d,%d): separation %.12g deg > radius %.12g deg" % (i, j, float(S[i, j]), float(r[i, 0]))
    elif m1.size and (np.diff(m1) < 0).any():
        bad = "pairs are not grouped by first-set index in input order"
    else:
        truth = S[m1, m2].astype("f8") if m1.size else np.zeros(0)
        if m1.size and (np.abs(d12 - truth) > BAND).any():
            k = int(np.argmax(np.abs(d12 - truth)))
            bad = "reported separation %.17g of pair (%d,%d) differs from the true %.17g deg" % (d12[k], m1[k], m2[k], truth[k])
        elif m1.size and ((np.diff(d12) < 0) & (np.diff(m1) == 0)).any():
            bad = "separations are not increasing within a group"
        elif (ident & (got == 1)).any() and (d12[(ra1[m1] == ra2[m2]) & (dec1[m1] == dec2[m2])] != 0).any():
            bad = "identical points matched at a non-zero distance"
    if bad is None:
        if maxmatch <= 0:
            miss = inside & (got == 0)
            if miss.any():
                i, j = map(int, np.argwhere(miss)[0])
                bad = "missing pair (%d,%d): separation %.12g deg <= radius %.12g deg (%d of %d true pairs missing)" % (
                    i, j, float(S[i, j]), float(r[i, 0]), int(miss.sum()), int(inside.sum()))
        else:
            cnt = got.sum(axis=1)
            lo = np.minimum(inside.sum(axis=1), maxmatch)
            hi = np.minimum((~outside).sum(axis=1), maxmatch)
            w = np.nonzero((cnt < lo) | (cnt > hi))[0]
            if w.size:
                i = int(w[0])
                bad = "maxmatch=%d: first-set point %d got %d pairs, %d..%d lie within its radius" % (maxmatch, i, cnt[i], lo[i], hi[i])
            else:
                # the k closest: the largest returned separation may not exceed the k-th smallest true one
                Ssorted = np.sort(np.where(outside, np.inf, S.astype("f8")), axis=1)
                for i in np.nonzero(cnt > 0)[0]:
                    kth = Ssorted[i, cnt[i] - 1]
                    mx = truth[m1 == i].max()
                    if mx > kth + 1e-12 + BAND * 0:
                        # a band pair may have been left out legitimately: allow the (k+nband_i)-th
                        nb = int((~inside[i] & ~outside[i]).sum())
                        kth2 = Ssorted[i, min(cnt[i] - 1 + nb, n2 - 1)]
                        if mx > kth2 + 1e-12:
                            bad = "maxmatch=%d: point %d: a returned pair at %.12g deg is not among its %d closest (k-th closest is %.12g)" % (
                                maxmatch, int(i), mx, cnt[i], kth)
                            break
    if bad:
        COL.violation(monitor, bad, wit, key=classify(bad, radius))
        return None
    COL.ok(monitor, sig + (("all" if maxmatch <= 0 else "k=%d" % min(maxmatch, 3)), "nontrivial" if inside.sum() and (~inside).sum() else "trivial"))
    COL.info["pairs_judged"] = COL.info.get("pairs_judged", 0) + int(n1 * n2)
    COL.info["true_pairs"] = COL.info.get("true_pairs", 0) + int(inside.sum())
    COL.info["band_pairs_unconstrained"] = COL.info.get("band_pairs_unconstrained", 0) + nband
    return inside, outside


def classify(bad, radius):
    return None


def on_match(call):
    if call.exc is not None:
        return
    obj = call.args[0]
    if id(obj) not in MATCHERS:
        COL.skipped("C12.pairs", "matcher-constructed-before-monitoring")
        return
    ra2, dec2 = MATCHERS[id(obj)]
    ra1 = np.atleast_1d(np.array(call.arg(1, "ra"), dtype="f8"))
    dec1 = np.atleast_1d(np.array(call.arg(2, "dec"), dtype="f8"))
    radius = np.atleast_1d(np.array(call.arg(3, "radius"), dtype="f8"))
    maxmatch = call.arg(4, "maxmatch", 1)
    fname = call.arg(5, "file", None)
    if ra1.size * ra2.size > 400000 or ra1.size == 0 or ra2.size == 0:
        COL.skipped("C12.pairs", "too-large-for-brute-force")
        return
    case = COL.case or {}
    wit = {"n1": int(ra1.size), "n2": int(ra2.size), "radius": probe._jsonable(radius[:5]), "maxmatch": int(maxmatch),
           "depth": int(obj.get_depth()), "file": bool(fname)}
    rdec = "r=0" if radius.max() == 0 else "1e%d" % int(np.floor(np.log10(max(radius.max(), 1e-300))))
    sig = (case.get("family"), rdec, int(obj.get_depth()), radius.size > 1, "file" if fname else "memory")
    if fname:
        # independent parse of the text file the C++ layer wrote
        rows = [ln.split() for ln in open(fname)] if os.path.exists(fname) else None
        if rows is None:
            COL.violation("C12.pairs", "file= route did not create the file", wit)
            return
        m1 = np.array([int(r[0]) for r in rows], dtype="i8")
        m2 = np.array([int(r[1]) for r in rows], dtype="i8")
        d12 = np.array([float(r[2]) for r in rows], dtype="f8")
        if call.result != m1.size:
            COL.violation("C12.pairs", "file= route returned %r, the file holds %d pairs" % (call.result, m1.size), wit)
            return
    else:
        m1, m2, d12 = call.result
    judge_pairs(m1, m2, d12, ra1, dec1, ra2, dec2, radius, int(maxmatch), wit, sig,
                monitor="C12.pairs" if int(maxmatch) <= 0 else "C12.truncate")


def install():
    probe.enable_argflip({"HTM.match": lambda a, k: np.ndim(a[4] if len(a) > 4 else k.get("radius", 0)) == 0 and not k.get("file"), "Matcher.match": lambda a, k: np.ndim(a[2] if len(a) > 2 else k.get("radius", 0)) == 0 and not k.get("file")}, every=4)
    probe.enable_recall("C12.recall", every=5)
    probe.instrument("esutil.htm.htm:Matcher.__init__", [on_matcher_init])
    probe.instrument("esutil.htm.htm:Matcher.match", [on_match])
    probe.instrument("esutil.htm.htm:HTM.match", [])
    probe.instrument("esutil.htm.htm:read_pairs", [], also=["esutil.htm"])


# ---------------------------------------------------------------------------------------------------------------
# workload

def make_sets(rng, fam):
    """-> ra1, dec1, ra2, dec2, radius (array, size 1 or n1), description"""
    n1 = int(rng.choice([1, 2, 3, 20, 80, 200]))
    n2 = int(rng.choice([1, 5, 40, 150, 400]))
    if fam == "antipodal":
        # second set = the antipodes of the first set, displaced by 1e-9 .. 1e-2 deg: separations just short of 180 deg, with
        # one radius of 180 deg or a per-point radius a few 1e-7 deg either side of the true separation
        n1 = int(rng.choice([1, 3, 12, 30]))
        ra1, dec1 = H.uniform(rng, n1)
        if rng.random() < .4:
            dec1[:] = 0.0                                   # equator pairs
        ara, adec = (ra1 + 180.0) % 360.0, -dec1
        ra2, dec2 = H.offset(rng, ara, adec, 10.0 ** rng.uniform(-9, -2, size=n1))
        if rng.random() < .5:
            return ra1, dec1, ra2, dec2, np.array([180.0])
        sd = np.array([float(H.sep_matrix(ra1[i:i + 1], dec1[i:i + 1], ra2[i:i + 1], dec2[i:i + 1])[0, 0]) for i in range(n1)])
        return ra1, dec1, ra2, dec2, np.minimum(sd + rng.choice([-3e-7, 3e-7, -1e-8, 1e-8], size=n1), 180.0)
    if fam == "corner-tangent":
        # second set: vertices of the mesh (corners of triangles of level 1-6, hence of every deeper level); first set:
        # twelve points around each vertex at the search radius plus / minus 1e-8 .. 5e-6 deg.  For the directions that
        # pass through the leaf triangle the vertex is looked up in, that whole triangle lies inside the search cap
        # while the vertex itself is just outside / inside the radius: the place where "whole triangle accepted"
        # short-cuts and padded caps go wrong by less than any random pair would show.
        rad = float(10 ** rng.uniform(-2, 0.7))
        nv = int(rng.choice([1, 2, 5]))
        ra2, dec2 = np.empty(nv), np.empty(nv)
        for j in range(nv):
            L = int(rng.integers(1, 7))
            c = H.triangle_corners(int(rng.integers(8 * 4 ** L, 16 * 4 ** L)), L)[int(rng.integers(0, 3))]
            lon, lat = S_.lonlat(c[:, None])
            ra2[j], dec2[j] = float(lon[0]) % 360.0, float(np.clip(lat[0], -90, 90))
        ndir = 12
        ra1, dec1 = np.empty(nv * ndir), np.empty(nv * ndir)
        for j in range(nv):
            delta = rng.choice([-1.0, 1.0], size=ndir) * 10.0 ** rng.uniform(-8, -5.3, size=ndir)
            # H.offset draws random directions; twelve of them cover the sectors around the vertex
            a, b = H.offset(rng, ra2[j], dec2[j], rad + delta, n=ndir)
            ra1[j * ndir:(j + 1) * ndir], dec1[j * ndir:(j + 1) * ndir] = a, b
        return ra1, dec1, ra2, dec2, np.array([rad])
    if fam == "uniform":
        ra1, dec1 = H.uniform(rng, n1)
        ra2, dec2 = H.uniform(rng, n2)
        r = float(rng.choice([1.0, 5.0, 20.0, 60.0, 100.0, 180.0]))
    elif fam in ("tiny-radius", "edge-straddle"):
        # the meridians ra = 0, 90, 180, 270 and the equator are triangle edges at every depth: clusters centred on them
        # hold many pairs whose two points lie in different triangles
        c = H.centre(rng, ["any", "seam", "northpole", "octant", "octant", "seam"][int(rng.integers(0, 6))])
        if fam == "edge-straddle":
            c = (float(rng.choice([0.0, 90.0, 180.0, 270.0])), float(rng.choice([0.0, float(rng.uniform(-80, 80))])))
        r = float(rng.choice([0.0, 1e-6, 1e-6, 1e-5, 3e-5, 1e-4])) if fam == "tiny-radius" else float(10 ** rng.uniform(-6, -1))
        size = max(r * 20, 1e-4) if fam == "tiny-radius" else r * 6
        ra2, dec2 = H.cluster(rng, c[0], c[1], size, n2)
        k = rng.integers(0, n2, size=n1)
        scale = r if r > 0 else 1e-6
        ra1, dec1 = H.offset(rng, ra2[k], dec2[k], scale * rng.choice([0.0, 0.5, 0.9, 0.999, 1.001, 1.1, 2.0], size=n1))
    else:
        kind = {"cap": "any", "duplicates": "any", "repeat-radius": "any", "perturbed": ["any", "seam", "northpole", "octant", "southpole"][int(rng.integers(0, 5))]}.get(fam, fam)
        c = H.centre(rng, kind)
        size = float(10 ** rng.uniform(-4, np.log10(30)))
        if fam in ("northpole", "southpole"):
            size = float(10 ** rng.uniform(-3, np.log10(3)))
        r = float(size * rng.choice([0.02, 0.1, 0.3, 1.0]))
        ra2, dec2 = H.cluster(rng, c[0], c[1], size, n2)
        if fam == "perturbed":
            k = rng.integers(0, n2, size=n1)
            ra1, dec1 = H.offset(rng, ra2[k], dec2[k], r * rng.choice([0.1, 0.5, 0.9, 0.99, 1.0 - 3e-8, 1.0 + 3e-8, 1.01, 1.1, 2.0], size=n1))
        elif fam == "duplicates":
            k = rng.integers(0, n2, size=n1)
            ra1, dec1 = ra2[k].copy(), dec2[k].copy()
            if n2 > 3:
                ra2[1], dec2[1] = ra2[0], dec2[0]                 # duplicates inside the second set
            if rng.random() < .3:
                ra1, dec1 = ra2.copy(), dec2.copy()                # self matching
        else:
            ra1, dec1 = H.cluster(rng, c[0], c[1], size, n1)
        if fam in ("northpole", "southpole") and n1 > 1:
            ra1[0], dec1[0] = c                                     # the exact pole itself
            ra2[0], dec2[0] = (c[0] + 123.0) % 360, c[1]            # same point, other longitude
        if fam == "seam" and n2 > 2:
            ra2[0], ra2[1] = 0.0, 360.0
    if fam == "repeat-radius":
        # the same first-set position several times in a row, each time with another radius (growing, shrinking, random):
        # whatever is computed for a position must not be carried over to the next entry with another radius
        reps = rng.integers(2, 5, size=ra1.size)
        ra1, dec1 = np.repeat(ra1, reps), np.repeat(dec1, reps)
        mult = np.concatenate([{0: np.sort, 1: lambda v: np.sort(v)[::-1], 2: lambda v: v}[int(rng.integers(0, 3))](
            rng.choice([0.05, 0.2, 0.5, 1.0, 1.5, 3.0], size=k)) for k in reps])
        return ra1, dec1, ra2, dec2, np.minimum(r * mult, 180.0)
    radius = np.array([r])
    if rng.random() < .35 and ra1.size > 1:
        radius = np.minimum(r * rng.choice([0.0, 0.5, 1.0, 1.5], size=ra1.size, p=[.1, .3, .3, .3]), 180.0)
    return ra1, dec1, ra2, dec2, radius


LAYS = ["native", "swapped", "strided", "f4", "list", "negstride"]


def relay(a, how):
    a = np.asarray(a, dtype="f8")
    if how == "native":
        return a.copy(), a
    if how == "swapped":
        return a.astype(">f8"), a
    if how == "strided":
        big = np.full(a.size * 2, 12.5)
        big[::2] = a
        return big[::2], a
    if how == "negstride":
        return np.ascontiguousarray(a[::-1])[::-1], a
    if how == "f4":
        b = a.astype("f4")
        return b, b.astype("f8")
    if how == "list":
        return a.tolist(), a
    raise ValueError(how)


def pairset(m1, m2):
    return set(zip(np.asarray(m1).tolist(), np.asarray(m2).tolist()))


def run_big_pair_file(case):
    """More than a million pairs written to a pair file and read back.  Every line of the file has the same length,
    16 bytes ("iiiiii jjjjjj 0" + newline: both indices have six digits, every separation is exactly 0), so every
    power-of-two offset up to the file size - whatever block size a reader counts or parses in - falls on a line end."""
    from esutil import htm
    rng = np.random.default_rng(case["sub"])
    nlat = 100000
    i = np.arange(nlat)
    lra, ldec = (i % 1000) * 0.36, -80.0 + (i // 1000) * 1.6            # a lattice 0.36 x 1.6 deg: nothing within reach
    d1, d2 = int(rng.integers(1030, 1120)), int(rng.integers(1020, 1060))
    pra, pdec = float(rng.uniform(0, 360)), float(rng.uniform(84, 88))      # the duplicated position, far from the lattice
    ra1, dec1 = np.concatenate([lra, np.full(d1, pra)]), np.concatenate([ldec, np.full(d1, pdec)])
    ra2, dec2 = np.concatenate([lra + 0.18, np.full(d2, pra)]), np.concatenate([ldec + 0.8, np.full(d2, pdec)])
    depth = int(rng.integers(8, 12))
    fname = os.path.join(workdir(), "c12_bigpairs_%d.txt" % case["_i"])
    wit = {"n1": int(ra1.size), "n2": int(ra2.size), "pairs_expected": d1 * d2, "depth": depth}
    COL.sample(dict(wit, family="big-pair-file"), limit=2)
    h = htm.HTM(depth)
    n, e = probe.attempt(h.match, ra1, dec1, ra2, dec2, 1.0 / 3600.0, maxmatch=0, file=fname)
    if e is not None:
        COL.violation("C12.routes", "match(file=) raised %s: %s" % (type(e).__name__, str(e)[:140]), wit)
        return
    size = os.path.getsize(fname)
    pairs, e = probe.attempt(htm.read_pairs, fname)
    bad = None
    if e is not None:
        bad = "read_pairs raised %s: %s" % (type(e).__name__, str(e)[:140])
    elif n != d1 * d2 or size != 16 * d1 * d2:
        bad = "match(file=) reports %r pairs in a file of %d bytes; %d pairs of 16 bytes were expected" % (n, size, d1 * d2)
    elif pairs.size != d1 * d2:
        bad = "read_pairs returns %d pairs from a file holding %d (%d bytes)" % (pairs.size, d1 * d2, size)
    else:
        m1, m2 = np.asarray(pairs["i1"], dtype="i8"), np.asarray(pairs["i2"], dtype="i8")
        code = np.sort((m1 - nlat) * d2 + (m2 - nlat))
        if (m1 < nlat).any() or (m2 < nlat).any() or not np.array_equal(code, np.arange(d1 * d2)) or np.any(np.asarray(pairs["d12"]) != 0):
            bad = "the pairs read back are not the %d x %d pairs of the duplicated position at separation 0" % (d1, d2)
    if bad:
        COL.violation("C12.routes", bad, wit, key="big-pair-file")
    else:
        COL.ok("C12.routes", ("big-pair-file", depth, size >> 20))
    try:
        os.unlink(fname)
    except OSError:
        pass


def run_case(case):
    if case["family"] == "big-pair-file":
        return run_big_pair_file(case)
    from esutil import htm
    rng = np.random.default_rng(case["sub"])
    fam = case["family"]
    ra1, dec1, ra2, dec2, radius = make_sets(rng, fam)
    rmax = float(radius.max())
    dmax = H.max_depth(rmax)
    depths = sorted(set([int(rng.integers(1, dmax + 1)), dmax, max(1, dmax - int(rng.integers(1, 4)))]))
    d0 = workdir()
    wit = {"family": fam, "n1": int(ra1.size), "n2": int(ra2.size), "radius_max": rmax, "depths": depths}
    COL.sample(wit, limit=8)
    rarg = float(radius[0]) if radius.size == 1 and rng.random() < .5 else radius
    S = H.sep_matrix(ra1, dec1, ra2, dec2)
    rr = np.broadcast_to(radius, (ra1.size,)).astype(np.longdouble)[:, None]
    band = (S > rr - BAND) & (S <= rr + BAND)
    band_pairs = set(map(tuple, np.argwhere(band).tolist()))
    ref = None
    for depth in depths:
        h = htm.HTM(depth)
        res, e = probe.attempt(h.match, ra1, dec1, ra2, dec2, rarg, maxmatch=0)
        if e is not None:
            COL.violation("C12.routes", "HTM(%d).match raised %s: %s" % (depth, type(e).__name__, str(e)[:140]), wit)
            return
        ps = pairset(res[0], res[1]) - band_pairs
        if ref is None:
            ref = (depth, ps, res)
        elif ps != ref[1]:
            dd = sorted(ps ^ ref[1])[:3]
            COL.violation("C12.routes", "pair set depends on depth: %d vs %d differ in %d pairs, e.g. %r" % (depth, ref[0], len(ps ^ ref[1]), dd), wit)
        else:
            COL.ok("C12.routes", ("depth-independence", fam, depth))
    depth = depths[-1]
    h = htm.HTM(depth)
    base, e = probe.attempt(h.match, ra1, dec1, ra2, dec2, rarg, maxmatch=0)
    if e is not None:
        return
    # maxmatch variants (judged by the wrapper); -1 means no limit as well
    gmax = int(np.bincount(base[0]).max()) if base[0].size else 1
    # (the last three: "more than any group" spelled as numbers whose low 32 bits are small)
    for mm in (-1, 1, 2, int(rng.integers(1, gmax + 2)), gmax + 5, 2 ** 32 + 1, 3 * 2 ** 32 + 2, 2 ** 40 + int(rng.integers(1, 9))):
        res, e = probe.attempt(h.match, ra1, dec1, ra2, dec2, rarg, maxmatch=mm)
        if e is not None:
            COL.violation("C12.truncate", "maxmatch=%d raised %s: %s" % (mm, type(e).__name__, str(e)[:140]), wit)
    # reusable matcher vs one-shot
    m = htm.Matcher(depth, ra2, dec2)
    r2, e = probe.attempt(m.match, ra1, dec1, rarg, maxmatch=0)
    if e is not None:
        COL.violation("C12.routes", "Matcher.match raised %s: %s" % (type(e).__name__, str(e)[:140]), wit)
    elif not same_result(r2, base):
        COL.violation("C12.routes", "Matcher(depth, ra2, dec2).match differs from HTM(depth).match", wit)
    else:
        COL.ok("C12.routes", ("matcher-vs-oneshot", fam))
    # second use of the same matcher with another first set
    r3, e = probe.attempt(m.match, ra1[::-1].copy(), dec1[::-1].copy(), (radius[::-1].copy() if radius.size > 1 else rarg), maxmatch=0)
    if e is None and base[0].size == r3[0].size:
        back = pairset(ra1.size - 1 - r3[0], r3[1]) - band_pairs
        if back != ref[1]:
            COL.violation("C12.routes", "re-using the Matcher with the first set reversed gives another pair set", wit)
        else:
            COL.ok("C12.routes", ("matcher-reuse", fam))
    # file route
    fname = os.path.join(d0, "c12_%d.pairs" % case["_i"])
    for mm in (0, 2):
        n, e = probe.attempt(h.match, ra1, dec1, ra2, dec2, rarg, maxmatch=mm, file=fname)
        mem, e2 = probe.attempt(h.match, ra1, dec1, ra2, dec2, rarg, maxmatch=mm)
        if e is not None or e2 is not None:
            COL.violation("C12.routes", "file route raised %r / %r" % (e, e2), wit)
            continue
        data, e3 = probe.attempt(htm.read_pairs, fname)
        if e3 is not None:
            COL.violation("C12.routes", "read_pairs raised %s: %s (the file holds %d pairs)" % (type(e3).__name__, str(e3)[:120], n), wit,
                          key="read_pairs/empty-file-raises" if n == 0 else None)
            continue
        ok = (n == mem[0].size == data.size and np.array_equal(data["i1"], mem[0]) and
              sorted(zip(data["i1"].tolist(), data["i2"].tolist())) == sorted(zip(mem[0].tolist(), mem[1].tolist())) and
              np.allclose(np.sort(data["d12"]), np.sort(mem[2]), rtol=1e-15, atol=1e-18))
        if not ok:
            COL.violation("C12.routes", "pairs written to a file and read back differ from the in-memory call (maxmatch=%d)" % mm, wit)
        else:
            COL.ok("C12.routes", ("file", fam, mm, "empty" if n == 0 else "pairs"))
        try:
            os.unlink(fname)
        except OSError:
            pass
    # coordinate layouts
    for how in [LAYS[int(i)] for i in rng.permutation(len(LAYS))[:2]]:
        a1, v1 = relay(ra1, how)
        b1, w1 = relay(dec1, how)
        a2, v2 = relay(ra2, how)
        b2, w2 = relay(dec2, how)
        res, e = probe.attempt(h.match, a1, b1, a2, b2, rarg, maxmatch=0)
        if e is not None:
            COL.violation("C12.routes", "coordinates as %s: raised %s: %s" % (how, type(e).__name__, str(e)[:120]), wit)
        elif how != "f4":
            if not same_result(res, base):
                COL.violation("C12.routes", "coordinates as %s give a different result than native arrays" % how, wit)
            else:
                COL.ok("C12.routes", ("layout", how))
        else:
            COL.ok("C12.routes", ("layout", how))          # float32 values differ: judged by the wrapper on its own values
        # the same layouts handed to the reusable matcher directly (its constructor and match() convert on their own),
        # including a per-point radius array in that layout
        rl = relay(np.broadcast_to(radius, (ra1.size,)).copy(), how)[0] if how != "f4" else rarg
        mres, e = probe.attempt(lambda: htm.Matcher(depth, a2, b2).match(a1, b1, rl, maxmatch=0))
        if e is not None:
            COL.violation("C12.routes", "Matcher with coordinates as %s: raised %s: %s" % (how, type(e).__name__, str(e)[:120]), wit)
        elif how != "f4":
            if not same_result(mres, base):
                COL.violation("C12.routes", "Matcher with coordinates and radii as %s gives a different result than HTM.match on native arrays" % how, wit)
            else:
                COL.ok("C12.routes", ("matcher-layout", how))
        mres2, e = probe.attempt(lambda: htm.Matcher(depth, ra2, dec2).match(a1, b1, rarg, maxmatch=2))
        mres3, e3 = probe.attempt(lambda: htm.Matcher(depth, a2, b2).match(ra1, dec1, rarg, maxmatch=2, file=fname))
        try:
            os.unlink(fname)
        except OSError:
            pass


def same_result(a, b):
    """same pairs with the same separations; the order among equal separations of one group is not constrained"""
    if a[0].size != b[0].size or not np.array_equal(a[0], b[0]):
        return False
    ka = sorted(zip(a[0].tolist(), a[2].tolist(), a[1].tolist()))
    kb = sorted(zip(b[0].tolist(), b[2].tolist(), b[1].tolist()))
    return ka == kb


def workdir():
    return os.environ.get("VERIF_CASEDIR", ".")
