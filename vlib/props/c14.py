"""C14 Per-bin statistics and equal-occupancy bins equal direct computation."""
import numpy as np

from vlib import probe
from vlib.probe import COL
from vlib.refs import hist as rh
from vlib.refs import binstats as bs
from vlib.props import c05

ID = "C14"
NATIVE = True
SAN_STRIDE = {"quick": 4, "thorough": 5}
RULE = ("seeded cases: C05's data families plus weights {equal, 10^+-6 spread, some zero}, a second variable, "
        "forced single-member and empty bins, nperbin in 1..n+1 with mergelast on/off and optional limits; driven "
        "through Binner.dohist/calc_stats and histogram(more=True / weights= / nperbin=); signature = (entry point, "
        "mode, weights class, y given, limits, size class, single-member bin present, empty bin present, merged); "
        "non-trivial when the call has at least two bins or two data")
TRUSTED = ["numpy mean/std/median/argsort(kind=stable)"]
ASSUMPTIONS = ["standard error and weighted error estimates are not constrained for single-member bins",
               "weighted statistics are not constrained for bins whose weights sum to zero",
               "calls with a datum within rounding of a bin edge are skipped (edge-rounding)"]
THOROUGH_ROUNDS = 6      # the thorough tier runs the generator over this many derived seeds
REQUIRED = {"quick": {"C14.stats": 1200, "C14.nperbin": 500},
            "thorough": {"C14.stats": 12000, "C14.nperbin": 6000}}

_LAST = {}


def cases(seed, tier):
    n = 2000 if tier == "quick" else 30000
    rng = np.random.default_rng([seed, 14])
    fams = ["stats-binsize", "stats-nbin", "stats-forced", "nperbin"]
    for i in range(n):
        yield {"family": fams[i % 4], "sub": int(rng.integers(0, 2**31))}


def make(case):
    rng = np.random.default_rng(case["sub"])
    fam = case["family"]
    kw = {}
    if fam in ("stats-binsize", "stats-nbin"):
        c = {"family": ["int-ties", "floats", "dyadic-edges", "limits", "constant", "single"][int(rng.integers(0, 6))]
             if fam == "stats-binsize" else ["nbin", "nbin-limits"][int(rng.integers(0, 2))], "sub": case["sub"]}
        data, kw, dt = c05.make(c)
        data = np.asarray(data, dtype="f8")
    elif fam == "stats-forced":
        # bins 0..k with chosen occupancy including 0 and 1
        k = int(rng.integers(2, 9))
        occ = rng.choice([0, 1, 1, 2, 3, 10], size=k)
        occ[0] = max(occ[0], 1)
        occ[-1] = max(occ[-1], 1)
        data = np.concatenate([i + rng.uniform(0.05, 0.95, size=o) for i, o in enumerate(occ)])
        data[0] = 0.0
        rng.shuffle(data[1:])
        kw = {"binsize": 1.0}
        if rng.random() < .4:
            # the smallest datum is exactly 0 (sometimes several times, also as -0.0) and the range starts whole bins
            # below it: leading empty bins, and the zeros belong to bin k >= 1
            z = int(rng.integers(0, 4))
            data = np.concatenate([data, np.zeros(z), -np.zeros(int(rng.integers(0, 2)))])
            kw["min"] = -float(rng.integers(1, 4)) * float(rng.choice([1.0, 0.5]))
            if rng.random() < .3:
                kw = {"nbin": int(rng.integers(3, 9)), "min": kw["min"], "max": float(np.ceil(data.max())) + 1.0}
    else:
        n = int(rng.choice([1, 2, 3, 5, 12, 40, 150, 300, 450]))
        data = rng.integers(-10, 11, size=n).astype("f8") if rng.random() < .5 else rng.normal(size=n)
        # the equal-occupancy layout bins the sorted rank with bin size nperbin: every nperbin up to 130 is reached over the
        # cases (a few have a reciprocal that is not exact), with several bins each
        npb = int(rng.integers(1, n + 2)) if n < 150 or rng.random() < .3 else int(rng.integers(1, min(131, n // 2)))
        kw = {"nperbin": npb, "mergelast": bool(rng.integers(0, 2))}
        if rng.random() < .3:
            s = np.sort(data)
            a, b = sorted(rng.integers(0, n, size=2))
            if rng.random() < .5:
                kw["min"] = float(s[a])
            if rng.random() < .5:
                kw["max"] = float(s[b])
    if rng.random() < .08 and "nperbin" not in kw:
        # data (and later y) that equal the empty-bin sentinel itself, -9999, the customary missing-value flag: several
        # in one bin, and a pair straddling it whose mean is exactly -9999
        data = np.concatenate([np.asarray(data, dtype="f8"), np.full(int(rng.integers(2, 6)), -9999.0), [-10000.5, -9997.5][: int(rng.integers(0, 3))]])
        kw = {k: v for k, v in kw.items() if k not in ("min", "max", "nbin")}
        kw["binsize"] = float(rng.choice([1.0, 4.0, 2500.0]))
        if kw["binsize"] < 100:
            data = data[(data < -9000) | (data > -9000 + 0)][:]          # keep the number of bins small:
            data = data[data < -9900] if rng.random() < .7 else np.concatenate([data[data < -9900], data[data >= -9900][:5] * 0 - 9990.0])
    n = data.size
    wmode = ["none", "equal", "spread", "zeros"][int(rng.integers(0, 4))]
    w = None
    if wmode == "equal":
        w = np.full(n, float(rng.choice([1.0, 0.5, 3.0])))
    elif wmode == "spread":
        w = 10.0 ** rng.uniform(-6, 6, size=n)
    elif wmode == "zeros":
        w = rng.uniform(0.1, 2.0, size=n)
        w[rng.random(n) < .3] = 0.0
    y = None
    if rng.random() < .5:
        y = rng.normal(size=n) * 10.0 ** rng.integers(-2, 3) + rng.integers(-5, 5)
        if rng.random() < .1:
            y[:] = -9999.0              # a second variable that is the sentinel value throughout
    return data, y, w, kw, wmode


def _cmp(mon, bad, name, got, exp, scale, i, n):
    if not bs.close(got, exp, scale):
        bad.append(("%s[%d] = %r, direct computation from the %d members gives %r" % (name, i, float(got), n, exp), name))


def judge_stats(mon, b, x, y, w, vmin, vmax, binsize, nbin, nperbin, mergelast, entry):
    """b: the Binner (dict) after calc_stats."""
    x = np.atleast_1d(np.asarray(x)).astype("f8")
    yv = None if y is None else np.atleast_1d(np.asarray(y)).astype("f8")
    wv = None if w is None else np.atleast_1d(np.asarray(w)).astype("f8")
    xp = "x" if yv is not None else ""
    bad = []
    merged = False
    if nperbin is not None:
        chunks = bs.equal_occupancy(x, vmin, vmax, int(nperbin), mergelast)
        merged = bool(mergelast and len(chunks) >= 1 and chunks[-1].size > nperbin)
        hist, rev = np.asarray(b["hist"]), np.asarray(b["rev"])
        nb = len(chunks)
        if hist.size != nb or hist.tolist() != [c.size for c in chunks]:
            bad.append(("equal-occupancy counts %r != expected %r (nperbin=%d mergelast=%r)" % (
                hist.tolist()[:12], [c.size for c in chunks][:12], nperbin, mergelast), "nperbin-counts"))
        elif rev.size < nb + 1 or (rev[:nb + 1] < nb + 1).any() or (rev[:nb + 1] > rev.size).any():
            bad.append(("equal-occupancy reverse offsets invalid: %r" % rev[:nb + 1].tolist(), "nperbin-rev"))
        else:
            for i, c in enumerate(chunks):
                sl = rev[rev[i]: rev[i + 1]]
                if sl.tolist() != c.tolist():
                    bad.append(("bin %d: reverse indices %r are not the original indices %r of the %d consecutive sorted data" % (
                        i, sl[:8].tolist(), c[:8].tolist(), c.size), "nperbin-rev"))
                    break
                if float(b["low"][i]) != x[c].min() or float(b["high"][i]) != x[c].max():
                    bad.append(("bin %d: low/high = %r/%r but smallest/largest member = %r/%r" % (
                        i, float(b["low"][i]), float(b["high"][i]), x[c].min(), x[c].max()), "nperbin-lowhigh"))
                    break
            if len(b["low"]) != nb or len(b["high"]) != nb:
                bad.append(("low/high have %d/%d entries for %d bins" % (len(b["low"]), len(b["high"]), nb), "nperbin-lowhigh"))
        members = [c for c in chunks]
    else:
        lo, hi = rh.limits(x, vmin, vmax)
        bsz, nb = rh.expected_bins(lo, hi, binsize, nbin)
        ref = rh.reference(x, lo, hi, bsz, nb)
        if ref["ambiguous"]:
            COL.skipped(mon, "edge-rounding")
            return
        if np.asarray(b["hist"]).tolist() != ref["hist"].tolist():
            # the counts themselves are C05's subject, but statistics reported for another membership than
            # floor((x-min)/binsize) are not "computed from the members of each bin" either
            COL.violation(mon, "%s: the per-bin statistics belong to counts %r, the members of the bins by floor((x-min)/binsize) number %r" % (
                entry, np.asarray(b["hist"]).tolist()[:12], ref["hist"].tolist()[:12]),
                {"min": vmin, "max": vmax, "binsize": binsize, "nbin": nbin, "x_head": np.sort(x)[:8].tolist()}, key=None)
            return
        members = [np.asarray(m, dtype=np.int64) for m in ref["members"]]
        scale = max(abs(lo), abs(hi), abs(bsz))
        for i in range(nb):
            el = lo + i * bsz
            _cmp(mon, bad, xp + "low", b[xp + "low"][i], el, scale, i, 0)
            _cmp(mon, bad, xp + "high", b[xp + "high"][i], el + bsz, scale, i, 0)
            _cmp(mon, bad, xp + "center", b[xp + "center"][i], el + 0.5 * bsz, scale, i, 0)
            if bad:
                break
    single = any(m.size == 1 for m in members)
    empty = any(m.size == 0 for m in members)
    if not bad and "rev" in b:
        for i, m in enumerate(members):
            for pref, arr in ((xp, x), ("y", yv)):
                if arr is None:
                    continue
                v = arr[m]
                scale = float(np.abs(v).max()) if v.size else 1.0
                exp = bs.unweighted(v)
                for k, e in exp.items():
                    _cmp(mon, bad, pref + k, b[pref + k][i], e, scale, i, m.size)
                if wv is not None:
                    exp = bs.weighted(v, wv[m])
                    for k, e in exp.items():
                        name = "whist" if k == "whist" else "w" + pref + k[1:]
                        _cmp(mon, bad, name, b[name][i], e, scale if k != "whist" else float(wv[m].max()) if m.size else 1.0, i, m.size)
            if bad:
                break
    wit = {"entry": entry, "n": int(x.size), "min": vmin, "max": vmax, "binsize": binsize, "nbin": nbin,
           "nperbin": nperbin, "mergelast": mergelast, "x": x[:16].tolist(),
           "w": None if wv is None else wv[:16].tolist(), "y": None if yv is None else yv[:16].tolist()}
    if bad:
        key = None
        if bad[0][1] == "whist" and wv is not None:
            # D23 class: single-member bin reports x*w
            i = int(bad[0][0].split("[")[1].split("]")[0])
            if members[i].size == 1 and bs.close(b["whist"][i], x[members[i][0]] * wv[members[i][0]], 1.0):
                key = "whist/single-member-bin-reports-x-times-w"
        COL.violation(mon, bad[0][0], wit, key=key)
    else:
        nontriv = x.size >= 2 or len(members) >= 2
        wcls = "none" if wv is None else ("zeros" if (wv == 0).any() else ("equal" if np.ptp(wv) == 0 else "spread"))
        sig = (entry, "nperbin" if nperbin is not None else ("nbin" if nbin is not None else "binsize"), wcls,
               yv is not None, vmin is not None, vmax is not None, min(int(np.log2(x.size)), 8), single, empty, merged,
               min(len(members), 12))
        COL.ok(mon, sig if nontriv else None)


def _mon(nperbin):
    return "C14.nperbin" if nperbin is not None else "C14.stats"


def _oracle_histogram(call):
    if call.depth > 0 or call.exc is not None:
        if call.depth == 0 and call.exc is not None and (call.kwargs.get("more") or call.kwargs.get("weights") is not None):
            COL.violation(_mon(call.kwargs.get("nperbin")), "histogram raised %s: %s" % (
                type(call.exc).__name__, str(call.exc)[:200]), {"kw": {k: v for k, v in call.kwargs.items() if k != "weights"}})
        return
    r = call.result
    wants_stats = bool(call.kwargs.get("more")) or call.kwargs.get("weights") is not None
    if not isinstance(r, dict):
        if wants_stats:
            # more=True / weights= are documented to return the dictionary-like object carrying the per-bin statistics
            COL.violation(_mon(call.kwargs.get("nperbin")), "histogram(more / weights) returned %s instead of the statistics object" % type(r).__name__,
                          {"kw": {k: v for k, v in call.kwargs.items() if k != "weights"}}, key="histogram/no-stats-object")
        return
    kw = call.kwargs
    nperbin = call.arg(4, "nperbin")
    nbin = call.arg(3, "nbin")
    binsize = None if nbin is not None else call.arg(2, "binsize", 1.0)
    judge_stats(_mon(nperbin), r, call.arg(0, "data"), None, call.arg(1, "weights"), kw.get("min"), kw.get("max"),
                binsize, nbin, nperbin, call.arg(5, "mergelast", True), "histogram")


def _oracle_dohist(call):
    self = call.args[0]
    nperbin = call.arg(3, "nperbin")
    binsize, nbin = call.arg(1, "binsize"), call.arg(2, "nbin")
    if binsize is not None:
        nbin = None
    args = dict(vmin=call.arg(4, "min"), vmax=call.arg(5, "max"), binsize=binsize, nbin=nbin, nperbin=nperbin,
                mergelast=call.arg(7, "mergelast", True))
    if len(_LAST) > 2000:
        _LAST.clear()
    _LAST[id(self)] = args
    if call.depth > 0:
        return
    if call.exc is not None:
        if binsize is not None or nbin is not None or nperbin is not None:
            COL.violation(_mon(nperbin), "Binner.dohist raised %s: %s" % (type(call.exc).__name__, str(call.exc)[:200]), args)
        return
    if call.arg(8, "calc_stats", True):
        judge_stats(_mon(nperbin), self, self.x, self.y, self.weights, entry="Binner.dohist", **args)


def _oracle_calc_stats(call):
    if call.depth > 0:
        return
    self = call.args[0]
    args = _LAST.get(id(self))
    if args is None:
        return
    if call.exc is not None:
        COL.violation(_mon(args["nperbin"]), "Binner.calc_stats raised %s: %s" % (type(call.exc).__name__, str(call.exc)[:200]), args)
        return
    judge_stats(_mon(args["nperbin"]), self, self.x, self.y, self.weights, entry="Binner.calc_stats", **args)


def install():
    probe.enable_recall("C14.recall", every=5)
    probe.instrument("esutil.stat.util:histogram", [_oracle_histogram], also=["esutil.stat"])
    probe.instrument("esutil.stat.util:Binner.dohist", [_oracle_dohist])
    probe.instrument("esutil.stat.util:Binner.calc_stats", [_oracle_calc_stats])


def run_case(case):
    import esutil.stat as st
    data, y, w, kw, wmode = make(case)
    COL.sample({"family": case["family"], "kw": kw, "weights": wmode, "y": y is not None, "n": int(data.size),
                "data_head": data[:6].tolist()})
    # one case in three hands the arrays over as non-contiguous float64 views (every other element / a record field)
    lr = np.random.default_rng([case["sub"], 14])
    if lr.random() < .33:
        def view(a, k):
            if a is None:
                return None
            a = np.asarray(a, dtype="f8")
            if k == 0:
                big = np.full(a.size * 2, -3.5)
                big[::2] = a
                return big[::2]
            rec = np.zeros(a.size, dtype=[("i", "i2"), ("v", "f8")])
            rec["v"] = a
            return rec["v"]
        kk = int(lr.integers(0, 2))
        data, y, w = view(data, kk), view(y, kk), view(w, kk)
    route = case["sub"] % 3
    if route == 0 or y is not None:
        b = st.Binner(data, y=y, weights=w)
        two = case["sub"] % 2 == 0
        probe.attempt(b.dohist, calc_stats=not two, rev=True, **kw)
        if two:
            probe.attempt(b.calc_stats)
        if lr.random() < .4 and data.size > 1 and "nperbin" not in kw:
            # the same Binner asked again with other limits: first limits that cut into the data, then none, then one
            # of the two - every call is judged on its own arguments by the wrappers (nothing may stick to the object)
            base = {k: v for k, v in kw.items() if k not in ("min", "max")}
            fin = np.asarray(data, dtype="f8")
            fin = fin[np.isfinite(fin)]
            if fin.size > 1 and fin.max() > fin.min():
                # limits are data values themselves (a range holding no datum is rejected by design)
                srt = np.sort(fin)
                lo, hi = (srt[int(0.3 * (srt.size - 1))], srt[int(np.ceil(0.7 * (srt.size - 1)))]) if lr.random() < .7 else \
                    (float(fin.min()) - 1.0, float(fin.max()) + 1.0)
                if hi > lo:
                    seq = [dict(base, min=float(lo), max=float(hi)), dict(base), dict(base, max=float(hi)), dict(base, min=float(lo)), dict(base)]
                    for j in lr.permutation(len(seq))[: int(lr.integers(2, 6))]:
                        two2 = bool(lr.integers(0, 2))
                        r, e = probe.attempt(b.dohist, calc_stats=not two2, rev=True, **seq[int(j)])
                        if two2 and e is None:
                            probe.attempt(b.calc_stats)
    if y is None:
        if w is not None:
            probe.attempt(st.histogram, data, weights=w, **kw)
        else:
            probe.attempt(st.histogram, data, more=True, **kw)
