"""Direct per-bin statistics from the members of a bin (no esutil)."""
import numpy as np

SENTINEL = -9999.0


def unweighted(v):
    """v: member values in bin order."""
    n = v.size
    if n == 0:
        return {"mean": SENTINEL, "std": SENTINEL, "median": SENTINEL, "err": SENTINEL}
    out = {"mean": float(v.mean()), "std": float(v.std()), "median": float(np.median(v))}
    if n >= 2:
        out["err"] = out["std"] / np.sqrt(n)
    return out


def weighted(v, w):
    n = v.size
    if n == 0:
        return {"whist": 0.0, "wmean": SENTINEL, "wstd": SENTINEL, "werr": SENTINEL, "werr2": SENTINEL}
    wt = float(w.sum())
    out = {"whist": wt}
    if wt > 0:
        wm = float((w * v).sum() / wt)
        out["wmean"] = wm
        out["wstd"] = float(np.sqrt((w * (v - wm) ** 2).sum() / wt))
        if n >= 2:
            out["werr"] = 1.0 / np.sqrt(wt)
            out["werr2"] = float(np.sqrt((w ** 2 * (v - wm) ** 2).sum()) / wt)
    return out


def close(a, b, scale):
    a, b = float(a), float(b)
    if np.isnan(a) and np.isnan(b):
        return True
    return abs(a - b) <= 1e-12 * max(abs(a), abs(b)) + 1e-12 * scale


def equal_occupancy(x, lo, hi, nperbin, mergelast):
    """Reference for nperbin binning: list of member index arrays (original
    indices, sorted by (value, original index))."""
    x = np.asarray(x, dtype=np.float64)
    order = np.argsort(x, kind="stable")
    if lo is not None or hi is not None:
        l = x.min() if lo is None else lo
        h = x.max() if hi is None else hi
        keep = (x[order] >= l) & (x[order] <= h)
        order = order[keep]
    chunks = [order[i:i + nperbin] for i in range(0, order.size, nperbin)]
    if mergelast and len(chunks) >= 2 and chunks[-1].size != nperbin:
        last = chunks.pop()
        chunks[-1] = np.concatenate([chunks[-1], last])
    return chunks
