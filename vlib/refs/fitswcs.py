"""Independent FITS-WCS reference (Greisen & Calabretta 2002 paper II for TAN, the TPV registry entry for the PV
polynomial, Shupe et al. 2005 for SIP), in long double.  No esutil import.

Pixel -> sky:
  offsets from CRPIX; [SIP: u += A(u,v), v += B(u,v) on the pixel offsets]; intermediate world coordinates by the CD
  matrix (degrees); [TPV: xi' = PV1(xi, eta), eta' = PV2(eta, xi) in the registry's term order]; gnomonic
  deprojection about (CRVAL1, CRVAL2) with LONPOLE = 180: direction = c + xi e_east + eta e_north, normalised.
"""
import numpy as np

from vlib.refs import sphere as S

LD = np.longdouble

# registry order: PV1_k multiplies (xi, eta) monomials, PV2_k the same with the roles swapped; k = 3 (radial) unused
PV_TERMS = {0: (0, 0), 1: (1, 0), 2: (0, 1), 4: (2, 0), 5: (1, 1), 6: (0, 2), 7: (3, 0), 8: (2, 1), 9: (1, 2), 10: (0, 3)}


def _g(h, k, default=None):
    return h.get(k, default)


def kind(h):
    t = h["ctype1"][4:].strip().upper()
    if t == "-TAN-SIP":
        return "sip"
    if any(("pv1_%d" % k) in h for k in PV_TERMS):
        return "tpv"
    return "tan"


def sip_poly(h, prefix, u, v):
    order = int(h[prefix + "_order"])
    out = np.zeros_like(u)
    for p in range(order + 1):
        for q in range(order + 1):
            c = h.get("%s_%d_%d" % (prefix, p, q))
            if c:
                out = out + LD(c) * u ** p * v ** q
    return out


def pv_poly(h, axis, a, b):
    """axis 1: a = xi, b = eta; axis 2: a = eta, b = xi"""
    out = np.zeros_like(a)
    for k, (p, q) in PV_TERMS.items():
        c = h.get("pv%d_%d" % (axis, k))
        if c:
            out = out + LD(c) * a ** p * b ** q
    return out


def lonpole_rotation(h, xi, eta):
    """LONPOLE (paper II eq. 2 with theta0 = 90: the native longitude of the celestial pole) other than the default
    180 deg turns the native system about the reference point: phi' = phi + (180 - lonpole), i.e. the plane
    coordinates x = R sin(phi), y = -R cos(phi) rotate counter-clockwise by that angle.  esutil spells the key
    'longpole'."""
    lp = h.get("longpole", h.get("lonpole"))
    if lp is None or float(lp) == 180.0:
        return xi, eta
    D = (LD(180) - LD(lp)) * S.D2R
    return xi * np.cos(D) - eta * np.sin(D), eta * np.cos(D) + xi * np.sin(D)


def intermediate(h, x, y, distort=True, rotate=True):
    """pixel -> (xi, eta) in degrees, long double arrays (in the frame whose eta axis points to the celestial pole
    when rotate=True)"""
    u = np.asarray(x, dtype="f8").astype(LD) - LD(h["crpix1"])
    v = np.asarray(y, dtype="f8").astype(LD) - LD(h["crpix2"])
    k = kind(h)
    if k == "sip" and distort:
        u, v = u + sip_poly(h, "a", u, v), v + sip_poly(h, "b", u, v)
    xi = LD(h["cd1_1"]) * u + LD(h["cd1_2"]) * v
    eta = LD(h["cd2_1"]) * u + LD(h["cd2_2"]) * v
    if k == "tpv" and distort:
        xi, eta = pv_poly(h, 1, xi, eta), pv_poly(h, 2, eta, xi)
    if rotate:
        xi, eta = lonpole_rotation(h, xi, eta)
    return xi, eta


def deproject(h, xi, eta):
    """gnomonic deprojection about CRVAL -> (3, n) unit vectors"""
    a0, d0 = LD(h["crval1"]) * S.D2R, LD(h["crval2"]) * S.D2R
    c = np.array([np.cos(d0) * np.cos(a0), np.cos(d0) * np.sin(a0), np.sin(d0)], dtype=LD)
    e = np.array([-np.sin(a0), np.cos(a0), LD(0)], dtype=LD)
    n = np.array([-np.sin(d0) * np.cos(a0), -np.sin(d0) * np.sin(a0), np.cos(d0)], dtype=LD)
    xr, er = np.atleast_1d(xi) * S.D2R, np.atleast_1d(eta) * S.D2R
    v = c[:, None] + e[:, None] * xr[None, :] + n[:, None] * er[None, :]
    return v / np.sqrt((v * v).sum(axis=0))


def image2sky_vec(h, x, y, distort=True):
    xi, eta = intermediate(h, np.atleast_1d(x), np.atleast_1d(y), distort)
    return deproject(h, xi, eta)


def image2sky(h, x, y, distort=True):
    lon, lat = S.lonlat(image2sky_vec(h, x, y, distort))
    return lon, lat


# ---- best-fit inverse polynomial accuracy ("fitted-polynomial accuracy" made operational) ------------------------

def _design(U, V, order, constant):
    cols = []
    for o in range(0 if constant else 1, order + 1):
        for j in range(o + 1):
            cols.append(U ** (o - j) * V ** j)
    return np.array(cols, dtype="f8").T


def inverse_fit_residual(h, ngrid=70):
    """max pixel residual over the image of the best least-squares inverse polynomial of order forward+1
    (TPV: (xi',eta') -> (xi,eta) with constant; SIP: distorted -> undistorted pixel offsets, no constant)"""
    k = kind(h)
    nx, ny = float(h["naxis1"]), float(h["naxis2"])
    gx, gy = np.meshgrid(np.linspace(1.0, nx, ngrid), np.linspace(1.0, ny, ngrid))
    x, y = gx.ravel(), gy.ravel()
    cd = np.array([[h["cd1_1"], h["cd1_2"]], [h["cd2_1"], h["cd2_2"]]], dtype="f8")
    cdi = np.linalg.inv(cd)
    u0, v0 = x - h["crpix1"], y - h["crpix2"]
    if k == "tpv":
        xi0, eta0 = intermediate(h, x, y, distort=False, rotate=False)
        xi1, eta1 = intermediate(h, x, y, distort=True, rotate=False)
        xi0, eta0, xi1, eta1 = [np.asarray(a, dtype="f8") for a in (xi0, eta0, xi1, eta1)]
        s = max(np.abs(xi1).max(), np.abs(eta1).max(), 1e-300)
        A = _design(xi1 / s, eta1 / s, 4, True)
        cu, *_ = np.linalg.lstsq(A, xi0, rcond=None)
        cv, *_ = np.linalg.lstsq(A, eta0, rcond=None)
        du, dv = A @ cu - xi0, A @ cv - eta0
        px = cdi[0, 0] * du + cdi[0, 1] * dv
        py = cdi[1, 0] * du + cdi[1, 1] * dv
    elif k == "sip":
        order = int(h["a_order"])
        U = np.asarray(u0 + np.asarray(sip_poly(h, "a", u0.astype(LD), v0.astype(LD)), dtype="f8"), dtype="f8")
        V = np.asarray(v0 + np.asarray(sip_poly(h, "b", u0.astype(LD), v0.astype(LD)), dtype="f8"), dtype="f8")
        s = max(np.abs(U).max(), np.abs(V).max(), 1e-300)
        A = _design(U / s, V / s, order + 1, False)
        cu, *_ = np.linalg.lstsq(A, u0 - U, rcond=None)
        cv, *_ = np.linalg.lstsq(A, v0 - V, rcond=None)
        px, py = A @ cu - (u0 - U), A @ cv - (v0 - V)
    else:
        return 0.0
    return float(np.sqrt(px * px + py * py).max())
