"""Independent histogram reference (NumPy + exact rationals).

Nothing here calls esutil.  Given the data as the callee sees them (float64),
the limits and the *reported* bin size / bin count it computes who is counted
where, and which data are `ambiguous` (IEEE and exact-rational bin index
differ, i.e. the datum is within rounding of a bin edge)."""
from fractions import Fraction

import numpy as np


def limits(x, vmin, vmax):
    lo = float(x.min()) if vmin is None else vmin
    hi = float(x.max()) if vmax is None else vmax
    return lo, hi


def expected_bins(lo, hi, binsize, nbin):
    """(binsize, nbin) according to the documented definitions."""
    if nbin is not None:
        return float(hi - lo) / nbin, int(nbin)
    return binsize, int(np.int64((hi - lo) / binsize)) + 1


def bin_index(x, lo, binsize):
    """(ieee index array as int64, mask of data whose exact-rational index
    differs from the IEEE-evaluated one)."""
    with np.errstate(all="ignore"):
        q = (x - np.float64(lo)) / np.float64(binsize)
    idx = np.floor(q).astype(np.int64)
    amb = np.zeros(x.size, dtype=bool)
    near = np.abs(q - np.rint(q)) <= 1e-9 * np.maximum(1.0, np.abs(q))
    if near.any():
        flo, fb = Fraction(float(lo)), Fraction(float(binsize))
        for i in np.nonzero(near)[0]:
            ex = (Fraction(float(x[i])) - flo) / fb
            e = ex.numerator // ex.denominator
            if e != int(idx[i]):
                amb[i] = True
    return idx, amb


def reference(x, lo, hi, binsize, nbin):
    """Returns dict(hist, members(list of index arrays in (value, original
    index) order), counted mask, ambiguous mask)."""
    x = np.asarray(x, dtype=np.float64)
    inlim = (x >= lo) & (x <= hi)
    idx, amb = bin_index(x, lo, binsize)
    valid = inlim & (idx >= 0) & (idx < nbin)
    order = np.argsort(x, kind="stable")
    hist = np.zeros(nbin, dtype=np.int64)
    members = [[] for _ in range(nbin)]
    for i in order:
        if valid[i]:
            hist[idx[i]] += 1
            members[idx[i]].append(int(i))
    return {"hist": hist, "members": members, "counted": valid,
            "ambiguous": bool((amb & inlim).any()), "idx": idx}
