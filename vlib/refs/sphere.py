"""Independent spherical geometry in long double (no esutil)."""
import numpy as np

LD = np.longdouble
PI = LD("3.14159265358979323846264338327950288")
D2R = PI / LD(180)
R2D = LD(180) / PI


def unit(lon_deg, lat_deg):
    """(3, n) long-double unit vectors from degrees given as float64."""
    lon = np.atleast_1d(np.asarray(lon_deg, dtype=np.float64)).astype(LD) * D2R
    lat = np.atleast_1d(np.asarray(lat_deg, dtype=np.float64)).astype(LD) * D2R
    cl = np.cos(lat)
    return np.array([cl * np.cos(lon), cl * np.sin(lon), np.sin(lat)])


def unit_rad(lon, lat):
    lon = np.atleast_1d(np.asarray(lon, dtype=np.float64)).astype(LD)
    lat = np.atleast_1d(np.asarray(lat, dtype=np.float64)).astype(LD)
    cl = np.cos(lat)
    return np.array([cl * np.cos(lon), cl * np.sin(lon), np.sin(lat)])


def sep_vec(a, b):
    """Angle in degrees between (3,n) vectors: atan2(|a x b|, a.b)."""
    cx = a[1] * b[2] - a[2] * b[1]
    cy = a[2] * b[0] - a[0] * b[2]
    cz = a[0] * b[1] - a[1] * b[0]
    return np.arctan2(np.sqrt(cx * cx + cy * cy + cz * cz), a[0] * b[0] + a[1] * b[1] + a[2] * b[2]) * R2D


def sep(lon1, lat1, lon2, lat2):
    return sep_vec(unit(lon1, lat1), unit(lon2, lat2))


def lonlat(v):
    """degrees (lon in [0,360), lat) of (3,n) vectors (any length)."""
    lon = np.arctan2(v[1], v[0]) * R2D
    lon = np.where(lon < 0, lon + 360, lon)
    lat = np.arctan2(v[2], np.sqrt(v[0] * v[0] + v[1] * v[1])) * R2D
    return lon, lat


def rz(deg):
    """longitudes increase by deg"""
    t = LD(deg) * D2R
    c, s = np.cos(t), np.sin(t)
    return np.array([[c, -s, 0], [s, c, 0], [0, 0, 1]], dtype=LD)


def rx(deg):
    """the x-axis rotation used by the classical Euler-angle transformation:
    y' = c y + s z ; z' = -s y + c z"""
    t = LD(deg) * D2R
    c, s = np.cos(t), np.sin(t)
    return np.array([[1, 0, 0], [0, c, s], [0, -s, c]], dtype=LD)


def pole_node_matrix(alpha_pole, delta_pole, node_lon):
    """Rotation from a system A to a system B given, in A, the longitude and
    latitude of B's north pole, and in B the longitude of the ascending node
    of A's equator: Rz(node) . Rx(90 - delta) . Rz(-(alpha + 90))."""
    return rz(node_lon) @ rx(LD(90) - LD(delta_pole)) @ rz(-(LD(alpha_pole) + LD(90)))


# documented constants
J2000 = dict(eps="23.4392911111", alphaG="192.85948", deltaG="27.12825", lomega="32.93192",
             alphaE="180.02322", deltaE="29.811438523", Eomega="6.3839743")
# B1950 is not documented in the file; published definitions the table was derived from
B1950 = dict(eps="23.4457889", alphaG="192.25", deltaG="27.4", lomega="33.0")


def euler_matrix(select, b1950=False):
    c = B1950 if b1950 else J2000
    eq2gal = pole_node_matrix(LD(c["alphaG"]), LD(c["deltaG"]), LD(c["lomega"]))
    eq2ec = rx(LD(c["eps"]))
    if select == 1:
        return eq2gal
    if select == 2:
        return eq2gal.T
    if select == 3:
        return eq2ec
    if select == 4:
        return eq2ec.T
    if select == 5:
        return eq2gal @ eq2ec.T
    if select == 6:
        return eq2ec @ eq2gal.T
    raise ValueError(select)


def ec2gal_documented():
    c = J2000
    return pole_node_matrix(LD(c["alphaE"]), LD(c["deltaE"]), LD(c["Eomega"]))


# SDSS survey coordinates: documented node (ra 95 deg) and eta pole (32.5 deg)
SDSS_NODE = LD(95)
SDSS_ETAPOLE = LD("32.5")


def sdss_vec_from_eq(ra, dec):
    """unit vector in the node frame (x towards ra=node on the equator)"""
    return unit(np.asarray(ra, dtype=np.float64).astype(LD) - SDSS_NODE, dec) if False else _node_frame(ra, dec)


def _node_frame(ra, dec):
    lon = (np.atleast_1d(np.asarray(ra, dtype=np.float64)).astype(LD) - SDSS_NODE) * D2R
    lat = np.atleast_1d(np.asarray(dec, dtype=np.float64)).astype(LD) * D2R
    cl = np.cos(lat)
    return np.array([cl * np.cos(lon), cl * np.sin(lon), np.sin(lat)])


def sdss_vec_from_survey(clambda, ceta):
    lam = np.atleast_1d(np.asarray(clambda, dtype=np.float64)).astype(LD) * D2R
    eta = (np.atleast_1d(np.asarray(ceta, dtype=np.float64)).astype(LD) + SDSS_ETAPOLE) * D2R
    cl = np.cos(lam)
    return np.array([-np.sin(lam), np.cos(eta) * cl, np.sin(eta) * cl])
