"""Independent reference for the Hogg (1999) distance measures (astro-ph/9905116).

T_*: the definitions evaluated with scipy.integrate.quad (epsrel 1e-13; nested for the volume).
G_*: the same definitions evaluated with the *documented* fixed-order Gauss-Legendre rule (5 points for the
     1/E integral, 10 points outer for the volume) from numpy.polynomial.legendre.leggauss.
No esutil import."""
import math

import numpy as np
from numpy.polynomial.legendre import leggauss
from scipy.integrate import quad

CLIGHT = 2.99792458e5
FOUR_PI_G_OVER_C_SQUARED = 6.0150504541630152e-07     # documented value, pc^2/Msun per Mpc
X5, W5 = leggauss(5)
X10, W10 = leggauss(10)


class P:
    """normalised parameters"""

    def __init__(self, H0, flat, om, ol, ok):
        self.H0, self.flat, self.om, self.ol, self.ok = float(H0), bool(flat), float(om), float(ol), float(ok)
        self.DH = CLIGHT / self.H0

    def E2(self, z):
        zp = 1.0 + z
        return self.om * zp ** 3 + (0.0 if self.flat else self.ok * zp ** 2) + self.ol

    def einv(self, z):
        return 1.0 / math.sqrt(self.E2(z))

    def min_E2(self, zmax=5.0):
        zs = np.linspace(0.0, zmax, 2001)
        return float(np.min(self.om * (1 + zs) ** 3 + (0.0 if self.flat else self.ok * (1 + zs) ** 2) + self.ol))


def expected_params(kw):
    """documented normalisation of the constructor keywords -> P"""
    H0 = kw.get("H0", 100.0)
    if kw.get("h") is not None:
        H0 = 100.0 * kw["h"]
    om = kw.get("omega_m", 0.3)
    ol = kw.get("omega_l", 0.7)
    ok = kw.get("omega_k", None)
    flat = kw.get("flat", True)
    if ok is None or ok == 0.0:
        flat, ok = True, 0.0          # without omega_k the geometry defaults to flat
    else:
        flat = False
    if flat:
        ol = 1.0 - om
    return P(H0, flat, om, ol, ok)


# ---- truth ------------------------------------------------------------------------------------------------------

def T_int(p, a, b):
    if a == b:
        return 0.0
    v, err = quad(p.einv, a, b, epsabs=0.0, epsrel=1e-13, limit=200)
    return v


def G_int(p, a, b):
    f1, f2 = (b - a) / 2.0, (b + a) / 2.0
    return sum(f1 * p.einv(x * f1 + f2) * w for x, w in zip(X5, W5))


def sinn(p, dc):
    """transverse comoving distance from the line-of-sight comoving distance"""
    if p.flat or p.ok == 0.0:
        return dc
    s = math.sqrt(abs(p.ok)) / p.DH
    return math.sinh(dc * s) / s if p.ok > 0 else math.sin(dc * s) / s


def quantities(p, integ):
    """all distance measures built on one 1/E integrator (T_int or G_int)"""
    def Dc(a, b):
        return p.DH * integ(p, a, b)

    def Dm(a, b):
        return sinn(p, Dc(a, b))

    def Da(a, b):
        return Dm(a, b) / (1.0 + b)

    def Dl(a, b):
        return Dm(a, b) * (1.0 + b)

    def distmod(z):
        d = Dl(0.0, z)
        return 5.0 * math.log10(d * 1.0e6 / 10.0) if d > 0 else -math.inf

    def dV(z):
        da = Da(0.0, z)
        return p.DH * da * da * p.einv(z) * (1.0 + z) ** 2

    def scinv(zl, zs):
        if zs <= zl:
            return 0.0
        return Da(zl, zs) * Da(0.0, zl) / Da(0.0, zs) * FOUR_PI_G_OVER_C_SQUARED
    return dict(Dc=Dc, Dm=Dm, Da=Da, Dl=Dl, distmod=distmod, dV=dV, sigmacritinv=scinv,
                Ezinv_integral=lambda a, b: integ(p, a, b), Ez_inverse=lambda z: p.einv(z))


def T_V(p, a, b):
    dV = quantities(p, T_int)["dV"]
    if a == b:
        return 0.0
    v, err = quad(dV, a, b, epsabs=0.0, epsrel=1e-11, limit=200)
    return 4.0 * math.pi * v


def G_V(p, a, b):
    dV = quantities(p, G_int)["dV"]
    f1, f2 = (b - a) / 2.0, (b + a) / 2.0
    return 4.0 * math.pi * sum(f1 * dV(x * f1 + f2) * w for x, w in zip(X10, W10))
