"""Build a scratch copy of esutil from the working tree of $VERIF_REPO.

The python sources are copied fresh on every call.  The five extension modules
are compiled by calling the compilers directly (setup.py passes -std=c++11 to C
files, which clang rejects).  Compiled objects are cached under
/verif/.build/<sha1 of every native source + flags>/ so that repeated checks on
an unchanged tree do not pay the 4 s compile again; the key is a content hash of
*every* non-python file below esutil/ (minus *.so), so an edited .c/.cc/.h file
always triggers a rebuild.  The cache is git-ignored and is recreated when
absent.
"""
import hashlib
import os
import shutil
import subprocess
import sys
import sysconfig
import tempfile
import time
from concurrent.futures import ThreadPoolExecutor

HERE = os.path.dirname(os.path.abspath(__file__))
VERIF = os.path.dirname(HERE)
CACHE = os.path.join(VERIF, ".build")

PY = "/venv/bin/python"
EXT_SUFFIX = None


def _pyinfo():
    global EXT_SUFFIX
    out = subprocess.run(
        [PY, "-c",
         "import sysconfig,numpy;print(sysconfig.get_paths()['include']);"
         "print(numpy.get_include());print(sysconfig.get_config_var('EXT_SUFFIX'))"],
        capture_output=True, text=True, check=True).stdout.split("\n")
    EXT_SUFFIX = out[2].strip()
    return out[0].strip(), out[1].strip(), EXT_SUFFIX


def extensions(root):
    """(module path relative to root, sources, extra include dirs)"""
    import glob
    e = os.path.join(root, "esutil")
    return [
        ("esutil/recfile/_records",
         [e + "/recfile/records.cpp", e + "/recfile/records_wrap.cpp"],
         [e + "/recfile"]),
        ("esutil/cosmology/_cosmolib",
         sorted(glob.glob(e + "/cosmology/*.c")), [e + "/cosmology"]),
        ("esutil/htm/_htmc",
         sorted(glob.glob(e + "/htm/htm_src/*.cpp")) +
         [e + "/htm/htmc.cc", e + "/htm/htmc_wrap.cc"],
         [e + "/htm", e + "/htm/htm_src"]),
        ("esutil/stat/_chist", [e + "/stat/chist_pywrap.c"], []),
        ("esutil/integrate/_cgauleg", [e + "/integrate/cgauleg_pywrap.c"], []),
    ]


FLAGS = {
    "plain": dict(cc="gcc", cxx="g++",
                  cflags=["-O2", "-fPIC", "-w", "-fno-strict-aliasing"],
                  ldflags=["-shared"]),
    "san": dict(cc="clang", cxx="clang++",
                cflags=["-O1", "-g", "-fPIC", "-w", "-fno-strict-aliasing",
                        "-fsanitize=address,undefined",
                        "-fno-omit-frame-pointer", "-shared-libasan",
                        "-fsanitize-recover=all", "-fno-sanitize=alignment",
                        "-D_GLIBCXX_ASSERTIONS"],
                ldflags=["-shared", "-fsanitize=address,undefined",
                         "-shared-libasan"]),
}


def native_hash(repo, kind):
    h = hashlib.sha1()
    h.update(repr(FLAGS[kind]).encode())
    h.update(sys.version.encode())
    base = os.path.join(repo, "esutil")
    for dp, dn, fn in sorted(os.walk(base)):
        dn.sort()
        if "__pycache__" in dp or "/tests" in dp:
            continue
        for f in sorted(fn):
            if f.endswith((".py", ".pyc", ".so", ".o")):
                continue
            p = os.path.join(dp, f)
            h.update(os.path.relpath(p, base).encode())
            with open(p, "rb") as fh:
                h.update(fh.read())
    return h.hexdigest()[:20]


def _compile_one(args):
    cmd, src = args
    r = subprocess.run(cmd, capture_output=True, text=True)
    return src, r.returncode, r.stdout + r.stderr


def compile_exts(srcroot, outdir, kind, jobs=16):
    """Compile the extensions from sources under srcroot into outdir
    (mirroring the package layout).  Returns list of built .so paths."""
    pyinc, npinc, suffix = _pyinfo()
    fl = FLAGS[kind]
    inc = ["-I" + pyinc, "-I" + npinc, "-I" + os.path.join(srcroot, "esutil/include")]
    objdir = tempfile.mkdtemp(prefix="esv-obj-")
    try:
        jobs_l = []
        link = []
        for mod, srcs, extra in extensions(srcroot):
            objs = []
            for s in srcs:
                cxx = s.endswith((".cpp", ".cc"))
                o = os.path.join(objdir, hashlib.sha1(s.encode()).hexdigest()[:12] + ".o")
                cmd = [fl["cxx"] if cxx else fl["cc"]] + fl["cflags"] + \
                    (["-std=c++11"] if cxx else []) + inc + \
                    ["-I" + x for x in extra] + ["-c", s, "-o", o]
                jobs_l.append((cmd, s))
                objs.append(o)
            link.append((mod, objs))
        with ThreadPoolExecutor(jobs) as ex:
            for src, rc, out in ex.map(_compile_one, jobs_l):
                if rc != 0:
                    raise RuntimeError("compile failed: %s\n%s" % (src, out[-4000:]))
        built = []
        for mod, objs in link:
            so = os.path.join(outdir, mod + suffix)
            os.makedirs(os.path.dirname(so), exist_ok=True)
            cmd = [fl["cxx"]] + fl["ldflags"] + objs + ["-o", so]
            r = subprocess.run(cmd, capture_output=True, text=True)
            if r.returncode != 0:
                raise RuntimeError("link failed: %s\n%s" % (mod, r.stdout + r.stderr))
            built.append(so)
        return built
    finally:
        shutil.rmtree(objdir, ignore_errors=True)


def _evict(keep=6):
    try:
        ents = [(os.path.getmtime(os.path.join(CACHE, d)), d) for d in os.listdir(CACHE)]
    except OSError:
        return
    ents.sort(reverse=True)
    for _, d in ents[keep:]:
        shutil.rmtree(os.path.join(CACHE, d), ignore_errors=True)


def build(repo=None, kind="plain", jobs=16, log=None):
    """Return (scratch_dir, info).  Caller must shutil.rmtree(scratch_dir)."""
    repo = repo or os.environ.get("VERIF_REPO", "/repo")
    t0 = time.time()
    scratch = tempfile.mkdtemp(prefix="esv-%s-" % kind)
    try:
        shutil.copytree(
            os.path.join(repo, "esutil"), os.path.join(scratch, "esutil"),
            ignore=shutil.ignore_patterns("*.so", "__pycache__", "*.pyc", "*.o"))
        key = native_hash(repo, kind) + "-" + kind
        cdir = os.path.join(CACHE, key)
        cached = os.path.isdir(cdir) and os.path.exists(os.path.join(cdir, "OK"))
        if not cached:
            tmpc = tempfile.mkdtemp(prefix="esv-so-")
            try:
                compile_exts(scratch, tmpc, kind, jobs)
                os.makedirs(CACHE, exist_ok=True)
                stage = cdir + ".%d" % os.getpid()
                shutil.rmtree(stage, ignore_errors=True)
                shutil.copytree(tmpc, stage)
                open(os.path.join(stage, "OK"), "w").write("ok")
                try:
                    os.rename(stage, cdir)
                except OSError:
                    shutil.rmtree(stage, ignore_errors=True)
            finally:
                shutil.rmtree(tmpc, ignore_errors=True)
            _evict()
        else:
            os.utime(cdir)
        sos = []
        for dp, dn, fn in os.walk(cdir):
            for f in fn:
                if f.endswith(".so"):
                    rel = os.path.relpath(os.path.join(dp, f), cdir)
                    dst = os.path.join(scratch, rel)
                    shutil.copy2(os.path.join(dp, f), dst)
                    sos.append(rel)
        if len(sos) != 5:
            raise RuntimeError("expected 5 extension modules, have %r" % sos)
        info = dict(kind=kind, repo=repo, key=key, cached=cached,
                    build_s=round(time.time() - t0, 2), extensions=sorted(sos))
        return scratch, info
    except Exception:
        shutil.rmtree(scratch, ignore_errors=True)
        raise


def asan_runtime():
    return subprocess.run(
        ["clang", "-print-file-name=libclang_rt.asan-x86_64.so"],
        capture_output=True, text=True, check=True).stdout.strip()


if __name__ == "__main__":
    kind = sys.argv[1] if len(sys.argv) > 1 else "plain"
    d, info = build(kind=kind)
    print(d, info)
    shutil.rmtree(d)
