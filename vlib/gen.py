"""Seeded generators shared by several properties (no esutil imports)."""
import numpy as np

INTS = ["i1", "u1", "i2", "u2", "i4", "u4", "i8", "u8"]
FLOATS = ["f4", "f8"]
NAMES = ["x", "y", "id", "flux", "ra", "dec", "mag", "flag", "END", "TREND", "ENDING", "SIZE", "_x", "name",
         "Z", "aB", "vec", "m2", "k_", "END_", "x1", "DTYPE", "DELIM", "e"]


def field_descr(rng, name, kinds, byteorders=("<", ">"), subarrays=True, maxsub=3):
    k = kinds[int(rng.integers(0, len(kinds)))]
    if k == "S":
        base = "S%d" % int(rng.integers(1, 13))
    elif k == "U":
        base = rng.choice(list(byteorders)) + "U%d" % int(rng.integers(1, 7))
    elif k in ("i1", "u1", "b1", "?"):
        base = "|" + ("b1" if k == "?" else k)
    else:
        base = rng.choice(list(byteorders)) + k
    if subarrays and rng.random() < .35:
        nd = int(rng.integers(1, maxsub + 1))
        shape = tuple(int(rng.integers(1, 4)) for _ in range(nd))
        return (name, base, shape)
    return (name, base)


def rand_descr(rng, nfields=None, kinds=None, byteorders=("<", ">"), subarrays=True, uniform_order=False,
               names=None, maxsub=3):
    kinds = kinds or (INTS + FLOATS + ["S", "S"])
    nfields = nfields or int(rng.integers(1, 8))
    pool = list(names or NAMES)
    rng.shuffle(pool)
    if uniform_order:
        byteorders = (rng.choice(list(byteorders)),)
    return [field_descr(rng, pool[i], kinds, byteorders, subarrays, maxsub) for i in range(nfields)]


def fill(rng, arr, raw=True):
    """Fill every cell.  raw=True: numeric and S cells from a random byte
    stream (NaN payloads, infinities, -0.0, integer extremes, embedded NULs);
    bool cells 0/1; U cells printable ASCII."""
    names = arr.dtype.names
    flat = arr.reshape(-1) if arr.ndim != 1 else arr
    for n in names:
        ft = arr.dtype.fields[n][0]
        base = ft.base
        view = arr[n]
        if base.kind == "U":
            L = base.itemsize // 4
            alphabet = np.array(list("abcXYZ 019_-,:;|'\"\\"))
            vals = ["".join(rng.choice(alphabet, size=int(rng.integers(0, L + 1)))) for _ in range(view.size)]
            view[...] = np.array(vals, dtype=base).reshape(view.shape)
        elif base.kind == "b":
            view[...] = rng.integers(0, 2, size=view.shape).astype(bool)
        elif raw:
            nbytes = view.size * base.itemsize
            buf = rng.integers(0, 256, size=nbytes, dtype=np.uint8)
            if base.kind in "fc" and nbytes:
                # sprinkle special values
                pass
            tmp = np.frombuffer(buf.tobytes(), dtype=base).reshape(view.shape)
            view[...] = tmp
        else:
            if base.kind in "iu":
                info = np.iinfo(base)
                view[...] = rng.integers(info.min, info.max, size=view.shape, dtype=base.newbyteorder("="), endpoint=True)
            elif base.kind == "f":
                view[...] = rng.normal(size=view.shape) * 10.0 ** rng.integers(-3, 4)
            elif base.kind == "c":
                view[...] = rng.normal(size=view.shape) + 1j * rng.normal(size=view.shape)
            elif base.kind == "S":
                L = base.itemsize
                alphabet = np.array(list("abcXYZ 019_-"))
                vals = ["".join(rng.choice(alphabet, size=int(rng.integers(0, L + 1)))) for _ in range(view.size)]
                view[...] = np.array(vals, dtype=base).reshape(view.shape)
    return arr


def special_floats(rng, arr, p=0.1):
    """Overwrite a fraction of float cells with NaN payloads, +-inf, +-0."""
    for n in arr.dtype.names:
        base = arr.dtype.fields[n][0].base
        if base.kind == "f":
            v = arr[n]
            m = rng.random(v.shape) < p
            sp = np.array([np.nan, np.inf, -np.inf, 0.0, -0.0], dtype=base)
            v[m] = rng.choice(sp, size=int(m.sum()))
    return arr


def rand_table(rng, shape, **kw):
    raw = kw.pop("raw", True)
    descr = rand_descr(rng, **kw)
    arr = np.zeros(shape, dtype=descr)
    fill(rng, arr, raw=raw)
    return arr


def field_bytes(a):
    """Bytes of the elements of a (sub-)array view, C order, as stored."""
    return np.ascontiguousarray(a).tobytes()


def same_field(a, b, name):
    fa, fb = a.dtype.fields[name][0], b.dtype.fields[name][0]
    return fa == fb and fa.base.byteorder == fb.base.byteorder and field_bytes(a[name]) == field_bytes(b[name])


# --- sky points -----------------------------------------------------------

def sphere(rng, n):
    ra = rng.uniform(0, 360, size=n)
    dec = np.degrees(np.arcsin(rng.uniform(-1, 1, size=n)))
    return ra, dec


# --- memory layouts ----------------------------------------------------------

VIEW_KINDS = ["strided", "negstride", "recfield", "2dcol", "offset-slice"]


def as_view(rng, a, kinds=None):
    """The same values as `a` (1-d, any dtype) presented as a non-contiguous or otherwise unusual view: every other
    element of a larger buffer, a negatively strided view, a field of a record array, a column of a 2-d array, or a
    slice starting inside a larger buffer.  Returns (view, kind)."""
    a = np.asarray(a)
    if a.ndim != 1 or a.size == 0:
        return a, "as-is"
    kind = (kinds or VIEW_KINDS)[int(rng.integers(0, len(kinds or VIEW_KINDS)))]
    if kind == "strided":
        big = np.empty(a.size * 2, dtype=a.dtype)
        big[1::2] = a[::-1]
        big[::2] = a
        return big[::2], kind
    if kind == "negstride":
        return np.ascontiguousarray(a[::-1])[::-1], kind
    if kind == "recfield":
        rec = np.zeros(a.size, dtype=[("pad", "i2"), ("v", a.dtype), ("tail", "S3")])
        rec["v"] = a
        rec["pad"] = 77
        return rec["v"], kind
    if kind == "2dcol":
        m = np.empty((a.size, 3), dtype=a.dtype)
        m[:, 0] = a[::-1]
        m[:, 2] = a[::-1]
        m[:, 1] = a
        return m[:, 1], kind
    big = np.empty(a.size + 5, dtype=a.dtype)
    big[:3] = a[:1]
    big[-2:] = a[-1:]
    big[3:-2] = a
    return big[3:-2], kind


def maybe_view(rng, a, p=0.3, kinds=None):
    """as_view with probability p, else the array itself"""
    if isinstance(a, np.ndarray) and a.ndim == 1 and a.size and rng.random() < p:
        return as_view(rng, a, kinds)[0]
    return a


# --- big arrays ----------------------------------------------------------------
# Blocked evaluation (to bound memory, to poll for signals, to read a file in pieces) only exists above some size, and its
# mistakes sit at block boundaries: a tail shorter than a block, a length that is an exact multiple of the block, the
# first element after a boundary.  BIG_SIZES are lengths just past powers of two and round decimal numbers up to a few
# million, and exact multiples of both; windows() picks the places to look at.

BIG_SIZES = [2 ** 20 + 37, 2 ** 21 + 1, 2 ** 22 + 5, 2 ** 22 + 2 ** 20, 10 ** 6, 5 * 10 ** 5, 15 * 10 ** 5, 2 * 10 ** 6 + 1, 25 * 10 ** 5 + 1, 5 * 10 ** 6 + 3,
             2 ** 23 + 1000, 10 ** 7 + 1]


def big_size(rng, cap=None, first=False):
    """a length from BIG_SIZES not above cap; first=True: the largest one (every run reaches the top of its range)"""
    s = [x for x in BIG_SIZES if cap is None or x <= cap]
    return int(max(s)) if first else int(s[int(rng.integers(0, len(s)))])


def windows(rng, n, width=64, extra=12):
    """index windows (start, stop) of a length-n array: head, tail, around every multiple of 2^16 .. 2^22 and of
    100000 that a blocked loop might use as boundary (a sample of them), and a few random places"""
    marks = {0, n}
    for k in range(16, 24):
        b = 2 ** k
        ms = list(range(b, n, b))
        for m in (ms if len(ms) <= 6 else [ms[0], ms[-1]] + [ms[int(i)] for i in rng.integers(0, len(ms), size=4)]):
            marks.add(m)
    for b in (10 ** 5, 5 * 10 ** 5, 10 ** 6):
        ms = list(range(b, n, b))
        for m in (ms if len(ms) <= 4 else [ms[0], ms[-1]] + [ms[int(i)] for i in rng.integers(0, len(ms), size=2)]):
            marks.add(m)
    for m in rng.integers(0, n, size=extra):
        marks.add(int(m))
    out = []
    for m in sorted(marks):
        a, b = max(0, m - width // 2), min(n, m + width // 2)
        if b > a:
            out.append((a, b))
    return out
