#!/venv/bin/python
"""Mechanical mutation sweep over esutil's own C / C++ sources (not the vendored HTM library under htm_src/).

One token is changed per mutant - a relational operator gets or loses its `=` (`<` <-> `<=`, `>` <-> `>=`), or a
`+ 1` / `- 1` / `+1` / `-1` is dropped - in a scratch copy of $VERIF_REPO/esutil; the extensions are rebuilt (plain and
ASan/UBSan, as in every check) and the quick checks of the properties anchored in that file are run *with* the
sanitizer build, because an off-by-one in native code often shows only as a read or write one element past a buffer.
A mutant that does not compile is `invalid`.  Survivors are listed with the repository's own suite result.

usage: selftest/csweep.py [--files substr,...] [--jobs 3] [--resume] [--limit N]
Results: selftest/csweep.json; tools/csweep_table.py summarises into DESIGN.md.
This is a test of the monitors, not a check: nothing registered in MANIFEST.json uses it.
"""
import argparse
import json
import os
import re
import shutil
import subprocess
import sys
import tempfile
import time
from concurrent.futures import ThreadPoolExecutor

HERE = os.path.dirname(os.path.abspath(__file__))
VERIF = os.path.dirname(HERE)
REPO = os.environ.get("VERIF_REPO", "/repo")
FILEMAP = {"stat/chist_pywrap.c": ["C05", "C14"], "integrate/cgauleg_pywrap.c": ["C17"],
           "cosmology/cosmolib.c": ["C11"], "cosmology/cosmolib_pywrap.c": ["C11", "C15"],
           "htm/htmc.cc": ["C12", "C13", "C15"], "htm/htmc.h": ["C12", "C13"],
           "recfile/records.cpp": ["C01", "C02", "C03", "C04"], "recfile/records.hpp": ["C01", "C02", "C03", "C04"]}
REL = re.compile(r"(?<![<>=!\-+*/&|^%])(<=|>=|<|>)(?![<>=])")
PM1 = re.compile(r"\s*([+-])\s*1\b(?![.\w])")


def strip_comments(src):
    """same length, comments and string literals blanked (so columns stay valid)"""
    out = list(src)
    i, n = 0, len(src)
    while i < n:
        c = src[i]
        if src.startswith("//", i):
            j = src.find("\n", i)
            j = n if j < 0 else j
            for k in range(i, j):
                out[k] = " "
            i = j
        elif src.startswith("/*", i):
            j = src.find("*/", i + 2)
            j = n if j < 0 else j + 2
            for k in range(i, j):
                if out[k] != "\n":
                    out[k] = " "
            i = j
        elif c in "\"'":
            j = i + 1
            while j < n and src[j] != c:
                j += 2 if src[j] == "\\" else 1
            for k in range(i + 1, min(j, n)):
                if out[k] != "\n":
                    out[k] = " "
            i = j + 1
        else:
            i += 1
    return "".join(out)


def sites(relfile, src):
    clean = strip_comments(src).split("\n")
    raw = src.split("\n")
    out = []
    for ln, (c, r) in enumerate(zip(clean, raw), 1):
        t = c.strip()
        if not t or t.startswith("#"):
            continue
        if "template" in t or "vector<" in t or "static_cast<" in t or "reinterpret_cast<" in t or "const_cast<" in t or "map<" in t \
                or "operator" in t or "->" in t and False:
            pass
        for m in REL.finditer(c):
            tok = m.group(1)
            # template brackets, includes, stream operators and -> are not comparisons
            before, after = c[:m.start()], c[m.end():]
            if re.search(r"(vector|map|pair|set|list|string|_cast|template|numeric_limits|less|greater|auto_ptr)\s*$", before) or \
                    re.search(r"^\s*(\w|:|\*|\s|,|<|>)*>\s*(\w|&|\*|\(|:|;|,|\))", tok + after) and re.search(r"(vector|map|pair|_cast|template|numeric_limits)\s*<[^;]*$", before):
                continue
            if tok == ">" and before.rstrip().endswith("-"):
                continue
            new = {"<": "<=", "<=": "<", ">": ">=", ">=": ">"}[tok]
            out.append({"file": relfile, "line": ln, "col": m.start(), "end": m.end(), "class": "bound", "old": tok, "new": new,
                        "text": r.strip()[:120]})
        for m in PM1.finditer(c):
            prev = c[:m.start()].rstrip()
            if not prev or prev[-1] in "+-*/(=,<>!&|?:[{%^~" or prev.endswith("return") or prev.endswith("case"):
                continue        # a unary sign, ++ / --, or a compound assignment: not the binary +-1 looked for
            if prev[-1] in "eE" and len(prev) > 1 and (prev[-2].isdigit() or prev[-2] == "."):
                continue        # the exponent of a floating literal
            out.append({"file": relfile, "line": ln, "col": m.start(), "end": m.end(), "class": "plusminus1", "old": m.group(0), "new": "",
                        "text": r.strip()[:120]})
    return out


def run_one(site, props, jobs):
    root = tempfile.mkdtemp(prefix="esv-cs-")
    t0 = time.time()
    rec = dict(site, props=props, runs={})
    try:
        shutil.copytree(os.path.join(REPO, "esutil"), os.path.join(root, "esutil"), ignore=shutil.ignore_patterns("*.so", "__pycache__"))
        p = os.path.join(root, "esutil", site["file"])
        lines = open(p).read().split("\n")
        ln = lines[site["line"] - 1]
        assert ln[site["col"]:site["end"]] == site["old"], (ln, site)
        lines[site["line"] - 1] = ln[:site["col"]] + site["new"] + ln[site["end"]:]
        open(p, "w").write("\n".join(lines))
        env = dict(os.environ, VERIF_REPO=root, VERIF_JOBS=str(jobs), VERIF_CASE_TIMEOUT=os.environ.get("OPSWEEP_CASE_TIMEOUT", "40"))
        verdict = "survived"
        for prop in props:
            try:
                r = subprocess.run([os.path.join(VERIF, "check"), prop, "--tier", "quick", "--no-evidence"], env=env,
                                   capture_output=True, text=True, timeout=2400)
                rc = r.returncode
                first = [l.strip()[:160] for l in r.stdout.split("\n") if l.startswith("  [")][:1]
                if rc != 1 and (" error: " in r.stdout + r.stderr) and ("esv-plain-" in r.stdout + r.stderr or "esv-san-" in r.stdout + r.stderr):
                    rec["note"] = [l for l in (r.stdout + r.stderr).split("\n") if " error: " in l][0][-200:]
                    rc = 3
            except subprocess.TimeoutExpired:
                rc, first = 2, ["check timed out"]
            rec["runs"][prop] = {"rc": rc, "first": first}
            if rc == 1:
                verdict = "caught"
                break
            if rc == 3 or (rc not in (0, 1, 2)):
                verdict = "invalid"
                break
            if rc != 0:
                verdict = "inconclusive"
        rec["verdict"] = verdict
        if verdict == "survived":
            sys.path.insert(0, VERIF)
            import importlib
            srun = importlib.import_module("selftest.run")
            ok, tail = srun.suite(root)
            rec["suite_passes"] = ok
            rec["suite_tail"] = tail[:80]
        return rec
    except Exception as e:  # noqa
        rec["verdict"] = "error"
        rec["note"] = repr(e)[:300]
        return rec
    finally:
        rec["seconds"] = round(time.time() - t0, 1)
        shutil.rmtree(root, ignore_errors=True)


def main():
    ap = argparse.ArgumentParser()
    ap.add_argument("--files", default="")
    ap.add_argument("--jobs", type=int, default=3)
    ap.add_argument("--limit", type=int, default=0)
    ap.add_argument("--resume", action="store_true")
    ap.add_argument("--redo", default="")
    ap.add_argument("--list", action="store_true")
    ap.add_argument("--out", default=os.path.join(HERE, "csweep.json"))
    a = ap.parse_args()
    done = {}
    if a.resume and os.path.exists(a.out):
        done = {r["key"]: r for r in json.load(open(a.out))}
    redo = set(filter(None, a.redo.split(",")))
    todo = []
    for f, props in FILEMAP.items():
        if a.files and not any(s in f for s in a.files.split(",")):
            continue
        src = open(os.path.join(REPO, "esutil", f)).read()
        for s in sites(f, src):
            s["key"] = "%s:%d:%d:%s" % (s["file"], s["line"], s["col"], s["class"])
            if a.list:
                print(s["key"], repr(s["old"]), "->", repr(s["new"]), "|", s["text"])
                continue
            if s["key"] in done and done[s["key"]].get("text") == s["text"] and done[s["key"]]["verdict"] not in redo:
                continue
            todo.append((s, props))
    if a.list:
        return
    if a.limit:
        todo = todo[:a.limit]
    print("%d sites to run, %d kept from before" % (len(todo), len(done)), flush=True)
    results = dict(done)

    def work(item):
        return run_one(item[0], item[1], max(2, 16 // a.jobs))
    n = 0
    with ThreadPoolExecutor(a.jobs) as ex:
        for rec in ex.map(work, todo):
            n += 1
            results[rec["key"]] = rec
            print("%-12s %-44s %-14s %-3s -> %-3s %-60s %s" % (rec["verdict"], rec["key"], ",".join(rec["runs"]), rec["old"].strip(), rec["new"],
                                                             rec["text"][:60], (list(rec["runs"].values())[-1]["first"] or [""])[0][:70] if rec["runs"] else rec.get("note", "")),
                  flush=True)
            if n % 5 == 0:
                json.dump(sorted(results.values(), key=lambda r: r["key"]), open(a.out, "w"), indent=1)
    json.dump(sorted(results.values(), key=lambda r: r["key"]), open(a.out, "w"), indent=1)
    tally = {}
    for r in results.values():
        tally[r["verdict"]] = tally.get(r["verdict"], 0) + 1
    print(tally)


if __name__ == "__main__":
    main()
