"""Property-breaking changes (and negative controls) used to test the monitors.
Each edit is (path relative to the repo root, exact old text, new text); the
old text must occur exactly once."""
MUTANTS = []


def M(prop, name, edits, why="", control=False):
    MUTANTS.append({"prop": prop, "name": name, "edits": edits, "why": why, "control": control})


CH = "esutil/stat/chist_pywrap.c"
SU = "esutil/stat/util.py"

# ---- C05
M("C05", "chist-binnum-le-nbin", [(CH, "if (binnum >= 0 && binnum < nbin) {", "if (binnum >= 0 && binnum <= nbin) {")],
  "heap write one past hist[] for the maximum datum with nbin= (ASan) and a count in a non-existent bin")
M("C05", "limits-open-low", [(SU, "(self.x[s] >= xmin) & (self.x[s] <= xmax)", "(self.x[s] > xmin) & (self.x[s] <= xmax)")],
  "a datum equal to the min limit is dropped")
M("C05", "py-engine-rounds", [(SU, "        binnum = np.int64((val - dmin) / binsize)\n        if binnum >= 0 and binnum < nbin:\n            # only",
                               "        binnum = np.int64(np.rint((val - dmin) / binsize))\n        if binnum >= 0 and binnum < nbin:\n            # only")],
  "python engine rounds instead of truncating")
M("C05", "unstable-sort", [(SU, 'self.sort_index = self.x.argsort(kind="stable")', "self.sort_index = self.x.argsort()[::-1][np.argsort(self.x[self.x.argsort()[::-1]], kind='quicksort')] if self.x.size > 16 else self.x.argsort(kind='stable')")],
  "ties no longer in original order for arrays longer than 16")
M("C05", "control-ge-zero-dropped", [(CH, "if (binnum >= 0 && binnum < nbin) {", "if (binnum > -1 && binnum < nbin) {")],
  "equivalent", control=True)

# ---- C14
M("C14", "std-ddof1", [(SU, "                        xstd[i] = self.x[w].std()\n", "                        xstd[i] = self.x[w].std(ddof=1)\n")],
  "sample instead of population deviation")
M("C14", "ymedian-from-x", [(SU, "ymedian[i] = np.median(self.y[w])", "ymedian[i] = np.median(self.x[w])")])
M("C14", "merge-last-forgets-high", [(SU, "        high[-1] = self[\"high\"][-1]\n", "")],
  "merged last bin keeps the predecessor's high")
M("C14", "wyerr2-from-x", [(SU, "                                j1, we2 = wmom(\n                                    self.y[w], self.weights[w], calcerr=True,",
                             "                                j1, we2 = wmom(\n                                    self.x[w], self.weights[w], calcerr=True,")])
M("C14", "empty-whist-sentinel", [(SU, "                whist[:] = 0\n", "                whist[:] = -9999.0\n")],
  "weighted count of empty bins reports the -9999 sentinel instead of 0")
M("C14", "nperbin-rev-sorted-frame", [(SU, "                rev[rev[i]: rev[i + 1]] = w\n", "                rev[rev[i]: rev[i + 1]] = w if i < 3 else rev[rev[i]: rev[i + 1]]\n")],
  "reverse indices of bins >= 3 left in the sorted frame")
M("C14", "control-center-rewritten", [(SU, 'center = low + 0.5 * self["binsize"]', 'center = low + self["binsize"] / 2.0')], control=True)
