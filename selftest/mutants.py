"""Property-breaking changes (and negative controls) used to test the monitors.
Each edit is (path relative to the repo root, exact old text, new text); the
old text must occur exactly once."""
MUTANTS = []


def M(prop, name, edits, why="", control=False):
    MUTANTS.append({"prop": prop, "name": name, "edits": edits, "why": why, "control": control})


CH = "esutil/stat/chist_pywrap.c"
SU = "esutil/stat/util.py"

# ---- C05
M("C05", "chist-binnum-le-nbin", [(CH, "if (binnum >= 0 && binnum < nbin) {", "if (binnum >= 0 && binnum <= nbin) {")],
  "heap write one past hist[] for the maximum datum with nbin= (ASan) and a count in a non-existent bin")
M("C05", "limits-open-low", [(SU, "(self.x[s] >= xmin) & (self.x[s] <= xmax)", "(self.x[s] > xmin) & (self.x[s] <= xmax)")],
  "a datum equal to the min limit is dropped")
M("C05", "py-engine-rounds", [(SU, "        binnum = np.int64((val - dmin) / binsize)\n        if binnum >= 0 and binnum < nbin:\n            # only",
                               "        binnum = np.int64(np.rint((val - dmin) / binsize))\n        if binnum >= 0 and binnum < nbin:\n            # only")],
  "python engine rounds instead of truncating")
M("C05", "unstable-sort", [(SU, 'self.sort_index = self.x.argsort(kind="stable")', "self.sort_index = self.x.argsort()[::-1][np.argsort(self.x[self.x.argsort()[::-1]], kind='quicksort')] if self.x.size > 16 else self.x.argsort(kind='stable')")],
  "ties no longer in original order for arrays longer than 16")
M("C05", "control-ge-zero-dropped", [(CH, "if (binnum >= 0 && binnum < nbin) {", "if (binnum > -1 && binnum < nbin) {")],
  "equivalent", control=True)

# ---- C14
M("C14", "std-ddof1", [(SU, "                        xstd[i] = self.x[w].std()\n", "                        xstd[i] = self.x[w].std(ddof=1)\n")],
  "sample instead of population deviation")
M("C14", "ymedian-from-x", [(SU, "ymedian[i] = np.median(self.y[w])", "ymedian[i] = np.median(self.x[w])")])
M("C14", "merge-last-forgets-high", [(SU, "        high[-1] = self[\"high\"][-1]\n", "")],
  "merged last bin keeps the predecessor's high")
M("C14", "wyerr2-from-x", [(SU, "                                j1, we2 = wmom(\n                                    self.y[w], self.weights[w], calcerr=True,",
                             "                                j1, we2 = wmom(\n                                    self.x[w], self.weights[w], calcerr=True,")])
M("C14", "empty-whist-sentinel", [(SU, "                whist[:] = 0\n", "                whist[:] = -9999.0\n")],
  "weighted count of empty bins reports the -9999 sentinel instead of 0")
M("C14", "nperbin-rev-sorted-frame", [(SU, "                rev[rev[i]: rev[i + 1]] = w\n", "                rev[rev[i]: rev[i + 1]] = w if i < 3 else rev[rev[i]: rev[i + 1]]\n")],
  "reverse indices of bins >= 3 left in the sorted frame")
M("C14", "control-center-rewritten", [(SU, 'center = low + 0.5 * self["binsize"]', 'center = low + self["binsize"] / 2.0')], control=True)

# ---- C18
M("C18", "clip-nonstrict", [(SU, "(np.abs(tarr - m)) < nsig * s", "(np.abs(tarr - m)) <= nsig * s")],
  "data exactly on the threshold survive")
M("C18", "wmedian-ge", [(SU, "    while sum > wtot2:", "    while sum >= wtot2:")],
  "cumulative weight exactly half the total moves the median one datum up")
M("C18", "interplin-right-uses-first-segment", [(SU, "        xm[w] = x.size - 2\n", "        xm[w] = 0\n")])
M("C18", "cor2cov-squares-errors", [(SU, "cov[ix, iy] = cor[ix, iy] * diagerr[ix] * diagerr[iy]", "cov[ix, iy] = cor[ix, iy] * diagerr[ix] * diagerr[ix]")])
M("C18", "wmom-calcerr-unsquared-weights", [(SU, "werr2 = (weights ** 2 * (arr - wmean) ** 2).sum(axis=0)", "werr2 = (weights * (arr - wmean) ** 2).sum(axis=0)")])
M("C18", "get_stats-err-n-1", [(SU, "        err = std / sqrt(arr.shape[0])\n\n    if doprint:", "        err = std / sqrt(max(arr.shape[0] - 1, 1))\n\n    if doprint:")])
M("C18", "clip-stats-from-previous-subset", [(SU, "        nold = w.size\n\n        m, e, s = _get_sigma_clip_stats(tarr, weights=tweights)",
                                               "        nold = w.size\n\n        if i < 3:\n            m, e, s = _get_sigma_clip_stats(tarr, weights=tweights)")],
  "from the third discarding iteration on the statistics are not recomputed")
M("C18", "control-wmedian-rewrite", [(SU, "    wtot2 = wtot / 2.0\n", "    wtot2 = 0.5 * wtot\n")], control=True)

# ---- C17
CG = "esutil/integrate/cgauleg_pywrap.c"
IU = "esutil/integrate/util.py"
M("C17", "eps-1e-6", [(CG, "EPS = 4.e-11;", "EPS = 4.e-6;")], "Newton iteration stops early")
M("C17", "mirror-weight-from-neighbour", [(CG, "w[npts+1-i-1] = w[i-1];", "w[npts+1-i-1] = w[i>1 ? i-2 : i-1];")])
M("C17", "setup-keeps-larger-rule", [(IU, "            if self.npts != npts:\n                self.npts = npts\n", "            if self.npts is None or npts > self.npts:\n                self.npts = npts\n")],
  "a later call with fewer points silently keeps the larger rule")
M("C17", "setup-stale-nodes", [(IU, "                self.npts = npts\n                self.xxi, self.wii = gauleg(-1.0, 1.0, self.npts)",
                                "                stale = self.npts is not None and npts == self.npts + 1\n                self.npts = npts\n                if not stale:\n                    self.xxi, self.wii = gauleg(-1.0, 1.0, self.npts)")],
  "npts -> npts+1 on the same object keeps the old nodes")
M("C17", "qgauss2-grid-transposed", [(IU, "self.xgrid, self.ygrid = meshgrid(x, y)", "self.ygrid, self.xgrid = meshgrid(y, x)")])
M("C17", "data-halfwidth-from-ends", [(IU, "        f2 = (x2 + x1) / 2.0\n\n        xi = self.xxi * f1 + f2\n\n        # interpolate",
                                       "        f2 = (x2 + x1) / 2.0\n\n        xi = self.xxi * f1 + f2\n        if self.npts > 64:\n            xi = numpy.sort(numpy.r_[xi[:-1], x2])\n\n        # interpolate")],
  "for more than 64 points the last abscissa is moved to the upper end of the data")
M("C17", "mirror-index-off-by-one", [(CG, "x[npts+1-i-1] = xm + xl*z;", "x[npts+1-i-(i>2?1:0)] = xm + xl*z;")],
  "the first two mirrored abscissae are stored one slot too far (heap write past the array for i=1)")
M("C17", "control-do-while-spelled", [(CG, "m = (npts + 1)/2;", "m = (npts + 1) >> 1;")], control=True)

# ---- C06
NU = "esutil/numpy_util.py"
M("C06", "high-clamp-removed", [(NU, "    if is_string or arr2.max() > arr1.max():\n        (bad,) = np.where(sub1 == arr1.size)\n        sub1[bad] = arr1.size - 1\n",
                                 "    if is_string:\n        (bad,) = np.where(sub1 == arr1.size)\n        sub1[bad] = arr1.size - 1\n")],
  "numeric probes above the maximum of the first array index out of bounds")
M("C06", "presorted-skips-equality", [(NU, "        (sub2,) = np.where(arr1[sub1] == arr2)\n        sub1 = sub1[sub2]",
                                       "        (sub2,) = np.where((arr1[sub1] == arr2) | (sub1 == 0))\n        sub1 = sub1[sub2]")],
  "presorted path reports probes below the minimum as matches of element 0")
M("C06", "rem_dup-keeps-smallest-flag", [(NU, "            if sflag[i] > f:", "            if sflag[i] < f:")])
M("C06", "match-unique-check-sampled", [(NU, "    test = np.unique(arr1)\n    if test.size != arr1.size:", "    test = np.unique(arr1[:64])\n    if test.size != arr1[:64].size:")],
  "repeats beyond the first 64 elements of the first array are not detected")
M("C06", "match-stable-sort-strings", [(NU, "    sub1 = np.searchsorted(arr1, arr2, sorter=st1)", "    sub1 = np.searchsorted(arr1, arr2, sorter=st1, side='right' if (is_string and arr1.size > 100) else 'left')")],
  "long string tables searched from the right miss every match")
M("C06", "unique-values-from-sorted", [(NU, "    keep = keep[0: nkeep + 1]\n    if values:\n        return arr[keep]", "    keep = keep[0: nkeep + 1]\n    if values:\n        return arr[s[0: nkeep + 1]]")],
  "values=True returns the first nkeep+1 sorted elements rather than the distinct ones")
M("C06", "control-rem_dup-ge", [(NU, "            if sflag[i] > f:", "            if sflag[i] >= f:")],
  "picks another index carrying the same maximum flag", control=True)

# ---- C07
M("C07", "reorder-rest-sorted", [(NU, "    for i in range(original_names.size):\n        name = original_names[i]\n        if name not in new_names:",
                                  "    for i in np.argsort(original_names):\n        name = original_names[i]\n        if name not in new_names:")],
  "remaining fields appended sorted by name instead of original order")
M("C07", "add-ignores-subarray-defaults", [(NU, "        if name in arrnames:\n            arr[name] = val", "        if name in arrnames and arr.dtype[name].shape == ():\n            arr[name] = val")])
M("C07", "extract-orders-by-request", [(NU, "    new_descr = []\n    for d in arr.dtype.descr:\n        name = d[0]\n        if name in keepnames:\n            new_descr.append(d)\n\n    if len(new_descr) == 0:\n        raise ValueError(\"No fields kept\")",
                                        "    dd = dict((d[0], d) for d in arr.dtype.descr)\n    new_descr = [dd[n] for n in keepnames if n in dd]\n\n    if len(new_descr) == 0:\n        raise ValueError(\"No fields kept\")")])
M("C07", "remove-drops-byteorder", [(NU, "        if name not in rmnames:\n            new_descr.append(d)", "        if name not in rmnames:\n            new_descr.append((d[0], d[1].replace('>', '<')) + tuple(d[2:]))")],
  "retained big-endian fields come back little-endian (values equal, declared order and bytes differ)")
M("C07", "extract-nonstrict-keeps-nothing-silently", [(NU, "    if len(new_descr) == 0:\n        raise ValueError(\"No fields kept\")", "    if len(new_descr) == 0 and strict:\n        raise ValueError(\"No fields kept\")")])
M("C07", "combine-size-check-first-two", [(NU, "    for arr in arrlist:\n        if arr.size != num:", "    for arr in arrlist[:2]:\n        if arr.size != num:")],
  "third and fourth arrays are not checked for length")
M("C07", "extract-returns-view-when-all", [(NU, "    shape = arr.shape\n    new_arr = np.zeros(shape, dtype=new_descr)\n    copy_fields(arr, new_arr)\n    return new_arr\n\n\ndef remove_fields",
                                            "    if len(new_descr) == len(arrnames):\n        return arr\n    shape = arr.shape\n    new_arr = np.zeros(shape, dtype=new_descr)\n    copy_fields(arr, new_arr)\n    return new_arr\n\n\ndef remove_fields")],
  "extracting every field returns the input itself, not a new array")
M("C07", "control-reorder-loop-rewritten", [(NU, "        if name not in new_names:\n            new_names.append(name)\n            new_descr.append(original_descr[i])",
                                             "        if new_names.count(name) == 0:\n            new_names.append(name)\n            new_descr.append(original_descr[i])")], control=True)

# ---- C16
M("C16", "newbyteorder-skipped-for-subarray-fields", [(NU, "    outdata = array.byteswap(inplace)\n    if not keep_dtype:\n        outdata.dtype = outdata.dtype.newbyteorder()",
   "    outdata = array.byteswap(inplace)\n    if not keep_dtype:\n        if outdata.dtype.names is not None and any(outdata.dtype[n].shape != () for n in outdata.dtype.names):\n            pass\n        else:\n            outdata.dtype = outdata.dtype.newbyteorder()")],
  "arrays with sub-array fields are swapped but keep their declared order")
M("C16", "to_native-no-copy-when-noswap", [(NU, "    if doswap:\n        outdata = byteswap(array, inplace, keep_dtype=keep_dtype)\n    else:\n        if inplace:\n            outdata = array\n        else:\n            outdata = array.copy()\n\n    return outdata\n\n\ndef descr_to_native",
   "    if doswap:\n        outdata = byteswap(array, inplace, keep_dtype=keep_dtype)\n    else:\n        outdata = array\n\n    return outdata\n\n\ndef descr_to_native")],
  "inplace=False returns the input itself when nothing has to be swapped")
M("C16", "is_big-ignores-equals", [(NU, "    return (byteorder == \">\") or (machine_big and byteorder == \"=\")", "    return (byteorder == \">\") or (machine_big and byteorder == \"<\")")],
  "harmless on little-endian hosts: negative control here", control=True)
M("C16", "is_little-ignores-native", [(NU, "    return (byteorder == \"<\") or (machine_little and byteorder == \"=\")", "    return (byteorder == \"<\")")],
  "native ('=') arrays are no longer recognised as little endian")
M("C16", "to_native-looks-at-first-field-only", [(NU, "        for fname in array.dtype.names:\n            if is_little_endian(array[fname]):\n                data_little = True\n                break\n\n    if (machine_little",
   "        for fname in array.dtype.names[:1]:\n            if is_little_endian(array[fname]):\n                data_little = True\n                break\n\n    if (machine_little")],
  "native arrays whose first field is a string are swapped")
M("C16", "descr-strips-two-chars-for-U", [(NU, "        nd[1] = nd[1][1:]\n", "        nd[1] = nd[1][1:] if nd[1][1] != 'U' else 'S' + nd[1][2:]\n")])
M("C16", "byteswap-inplace-ignored-for-0d", [(NU, "    outdata = array.byteswap(inplace)\n", "    outdata = array.byteswap(inplace and array.ndim > 0)\n")],
  "0-d arrays are never converted in place")

# ---- C08
CO = "esutil/coords.py"
M("C08", "switchover-3.0-arcsin-without-pi", [(CO, "    w = dsq >= 3.99\n", "    w = dsq >= 3.0\n"), (CO, "        dis[w] = np.pi - np.arcsin(np.sqrt(crosssq))", "        dis[w] = np.where(dsq[w] >= 3.99, np.pi - np.arcsin(np.sqrt(crosssq)), np.arcsin(np.sqrt(crosssq)))")],
  "separations between 120 and 174 degrees come back as 180 - d")
M("C08", "gcirc-clip-removed", [(CO, "    cosdis.clip(-1.0, 1.0, out=cosdis)\n", "")], "NaN for rounding beyond +-1")
M("C08", "deg2rad-twice-rad-deg", [(CO, "    x1, y1, z1 = eq2xyz(ra1, dec1, units=units_in)\n", "    x1, y1, z1 = eq2xyz(ra1, dec1, units=units_in if units_out == units_in else 'deg')\n")],
  "first point converted from degrees although the input unit is radians when the two units differ")
M("C08", "sphdist-chord-only", [(CO, "    w = dsq >= 3.99\n", "    w = dsq >= 3.9999999\n")],
  "chord formula kept up to 179.98 degrees: loses precision near antipodes")
M("C08", "sphdist-zero-fixup-dropped-dec", [(CO, "        (np.atleast_1d(ra1) == np.atleast_1d(ra2))\n        & (np.atleast_1d(dec1) == np.atleast_1d(dec2))\n", "        (np.atleast_1d(ra1) == np.atleast_1d(ra2))\n")],
  "pairs on the same meridian are forced to zero")
M("C08", "gcirc-radiff-sign", [(CO, "    radiff = ra2 - ra1\n", "    radiff = ra1 - ra2\n")], "cos is even: equivalent", control=True)

# ---- C09
M("C09", "table-constant-6th-digit", [(CO, "                0.88998808748,\n                -0.88998808748,", "                0.88998908748,\n                -0.88998808748,")],
  "J2000 eq->gal sin(theta) changed in the 6th digit (1.2e-4 deg; a 7th-digit change moves points by at most 1.3e-5 deg, at the property's own resolution of 1e-5)")
M("C09", "fourpi-dropped", [(CO, "    ao = ((a + psi[i] + fourpi) % twopi) * R2D", "    ao = ((a + psi[i]) % twopi) * R2D if i != 3 else (a + psi[i]) * R2D")],
  "ecliptic->equatorial longitudes can come out negative")
M("C09", "atbound2-folds-at-180", [(CO, "    (w,) = np.where(np.abs(theta) > 90.0)\n    if w.size > 0:\n        theta[w] = 180.0 - theta[w]", "    (w,) = np.where(np.abs(theta) > 180.0)\n    if w.size > 0:\n        theta[w] = 180.0 - theta[w]")],
  "equivalent here: dec from arctan2 never exceeds 90", control=True)
M("C09", "stomp-node-twice", [(CO, "    if stomp:\n        theta -= _sdsspar[\"node\"]\n\n    return _thetaphi2xyz(theta, phi)", "    if stomp:\n        theta -= _sdsspar[\"node\"]\n        if units != \"deg\":\n            theta -= _sdsspar[\"node\"]\n\n    return _thetaphi2xyz(theta, phi)")],
  "stomp convention subtracts the node twice for radian input")
M("C09", "b1950-ecl-gal-uses-j2000-phi", [(CO, "                4.7005372834,\n                0.11129056012,\n            ],", "                4.71279419371,\n                0.11129056012,\n            ],")],
  "B1950 ecliptic->galactic uses the J2000 node")
M("C09", "sdss-etapole-sign-southern", [(CO, "    ceta = z\n    ceta -= _sdsspar[\"etapole\"]", "    ceta = z\n    ceta -= _sdsspar[\"etapole\"]\n    ceta[ceta < -PI - 0.5] += 1e-7")],
  "eta shifted by 1e-7 rad before wrapping on the far side")
M("C09", "shiftlon-negshift-no-wrap", [(CO, "            (w,) = np.where(lon > 360.0)\n            if w.size > 0:\n                lon[w] -= 360.0", "            (w,) = np.where(lon > 540.0)\n            if w.size > 0:\n                lon[w] -= 360.0")],
  "negative shifts leave values up to 540")
M("C09", "rotate-dec-arcsin-clamp-asym", [(CO, "    dec_out = arctan2(b, sqrt(xo * xo + yo * yo))\n", "    dec_out = arctan2(b, sqrt(xo * xo + yo * yo))\n    dec_out[sb < -0.99999] *= -1\n")],
  "points within 0.26 deg of the south pole are mirrored")

# ---- C19
RA = "esutil/random.py"
M("C19", "randcap-atbound-dropped", [(CO, "        rand_dec = np.rad2deg(arctan2(z, sqrt(x * x + y * y)))\n\n        atbound(rand_ra, 0.0, 360.0)\n", "        rand_dec = np.rad2deg(arctan2(z, sqrt(x * x + y * y)))\n\n")],
  "longitudes come back in [-180,180]")
M("C19", "pole-switch-99", [(CO, "    if dec >= 89.9 or dec <= -89.9:", "    if dec >= 99 or dec <= -89.9:")],
  "equivalent since the direct path became accurate at the poles", control=True)
M("C19", "randcap-radius-not-sqrt-for-rot", [(CO, "            rad,\n            get_radius=True,\n            rng=rng,\n        )", "            rad * (1 + 1e-7),\n            get_radius=True,\n            rng=rng,\n        )")],
  "rotated caps are 1e-7 (relative) too wide")
M("C19", "generator-norm-by-sum", [(RA, "                self.norm = pcum[-1]\n                self.pcum = pcum / self.norm\n\n                # interval is smaller, no integral in first point\n                self.xvals = self.xinput[1:]\n\n    def initialize_func",
                                   "                self.norm = pcum.sum()\n                self.pcum = pcum / self.norm\n\n                # interval is smaller, no integral in first point\n                self.xvals = self.xinput[1:]\n\n    def initialize_func")],
  "tabulated density: cumulative normalised by its sum instead of its last value")
M("C19", "cholesky-upper-factor", [(RA, "        self.M = numpy.linalg.cholesky(self.cov)\n", "        self.M = numpy.linalg.cholesky(self.cov).T\n")])
M("C19", "cholesky-sample-mean-first-only", [(RA, "    if means is not None:\n        for i in range(npar):\n            V[i, :] += means[i]", "    if means is not None:\n        for i in range(npar):\n            V[i, :] += means[i] if n > 1 or i == 0 else 0.0")],
  "n=1: only the first mean is added")
M("C19", "random-indices-inclusive", [(RA, "    return rng.choice(imax, size=nrand, replace=replace)", "    return rng.choice(imax + (0 if replace is False else 1), size=nrand, replace=replace)")],
  "with replacement the range becomes [0,imax]")
M("C19", "randsphere-dec-range-swapped-cos", [(CO, "    cosdec_min = cos(deg2rad(90.0 + dec_range[1]))\n    cosdec_max = cos(deg2rad(90.0 + dec_range[0]))", "    cosdec_min = cos(deg2rad(90.0 + dec_range[1]))\n    cosdec_max = cos(deg2rad(90.0 + dec_range[0])) if dec_range[0] > -89.9999 else 1.0 + 1e-9")],
  "boxes touching the south pole draw v slightly above 1 (clipped to the pole): harmless", control=True)
M("C19", "generator-first-interval-dropped", [(RA, "                pcum = scipy.integrate.cumulative_trapezoid(self.pofx, self.xinput)\n", "                pcum = scipy.integrate.cumulative_trapezoid(self.pofx, self.xinput)\n                pcum = pcum - pcum[0] * (self.xinput.size > 50)\n")],
  "grids with more than 50 points lose the first interval's probability")

# ---- C01
SF = "esutil/sfile.py"
RU = "esutil/recfile/Util.py"
RC = "esutil/recfile/records.cpp"
M("C01", "header-drops-uppercase-user-keys", [(SF, "            if key.upper() in head:\n                del head[key.upper()]\n", "            if key.upper() in head:\n                del head[key.upper()]\n        for key in [k for k in head if k[:1].isupper() and k.upper() == k and len(k) > 4]:\n            del head[key]\n")],
  "all-upper-case user keys longer than four characters are dropped")
M("C01", "count-nrows-rounds-up", [(RU, "                nrows = datasize // rowsize\n", "                nrows = -(-datasize // rowsize)\n")],
  "equivalent for well-formed files", control=True)
M("C01", "write-rowsize-minus-one-large-rows", [(RC, "	npy_intp nwrite = fwrite(mData, mRowSize, mNrows, mFptr);", "	npy_intp nwrite = (mRowSize >= 64 && mNrows > 100) ? fwrite(mData, 1, mRowSize*mNrows - 1, mFptr)/mRowSize + 1 : fwrite(mData, mRowSize, mNrows, mFptr);")],
  "the last byte of big tables is not written")
M("C01", "binary-header-byteorder-stripped", [(SF, "        if self._delim is not None:\n            head[\"_DELIM\"] = self._delim\n\n            # Text file. Remove the byte order specification.\n            descr = self._remove_byteorder(descr)",
                                               "        if self._delim is not None:\n            head[\"_DELIM\"] = self._delim\n\n        if self._delim is not None or len(descr) > 6:\n            # Text file. Remove the byte order specification.\n            descr = self._remove_byteorder(descr)")],
  "binary files with more than six fields lose the byte order in _DTYPE")
M("C01", "read-binary-slice-step-fread-short", [(RC, "        npy_intp nread = (npy_intp) fread(ptr, mRowSize, nrows2read, mFptr);\n        if (nread != nrows2read) {", "        npy_intp nread = (npy_intp) fread(ptr, mRowSize, nrows2read > 4096 ? 4096 : nrows2read, mFptr);\n        if (nread != nrows2read && nrows2read <= 4096) {")],
  "full reads silently stop after 4096 rows")
M("C01", "header-end-match-without-leading-newline", [(RC, "        if (0==strncmp(endbuff,\"\\nEND\\n\",5)) {", "        if (0==strncmp(endbuff+1,\"END\\n\",4)) {")],
  "equivalent for files the library writes: pprint never ends a line with the bare text END (quotes/commas follow)", control=True)
M("C01", "io-read-ensure-native-default", [("esutil/io.py", "    ensure_native = keys.get(\"ensure_native\", False)\n    verbose = keys.get(\"verbose\", False)\n\n    if header == \"only\":", "    ensure_native = keys.get(\"ensure_native\", rows is None and columns is None and fields is None and not header)\n    verbose = keys.get(\"verbose\", False)\n\n    if header == \"only\":")],
  "io.read converts full reads to native byte order by default")

# ---- C04
M("C04", "double-15-digits", [(RC, '	formats[NPY_DOUBLE] = "%.16g";', '	formats[NPY_DOUBLE] = "%.15g";')])
M("C04", "float-6-digits", [(RC, '	formats[NPY_FLOAT] = "%.7g";', '	formats[NPY_FLOAT] = "%.6g";')])
M("C04", "uint64-scanned-signed", [(RC, "	formats[NPY_UINT64] += NPY_UINT64_FMT;\n\n#ifdef NPY_INT128\n	formats[NPY_INT128] += NPY_INT128_FMT;", "	formats[NPY_UINT64] += NPY_INT64_FMT;\n\n#ifdef NPY_INT128\n	formats[NPY_INT128] += NPY_INT128_FMT;")],
  "unsigned 64-bit printed/scanned with the signed format: values above 2^63 are written as negative numbers but scan back to the same bits, so the round trip the statement demands is unaffected", control=True)
M("C04", "element-delim-omitted-2d", [(RC, "		if (el < (nel-1) ) {\n            fprintf(mFptr, \"%s\", mDelim.c_str());\n		}", "		if (el < (nel-1) && !(mNdim[fnum] > 1 && (el+1) % mDims[fnum][mNdim[fnum]-1] == 0 && mDelim == \" \")) {\n            fprintf(mFptr, \"%s\", mDelim.c_str());\n		}")],
  "space-delimited 2-d sub-arrays: no delimiter between rows of the sub-array")
M("C04", "header-keeps-byteorder-for-big-endian", [(SF, "            tdef = newd[1]\n            tdef = tdef[1:]\n", "            tdef = newd[1]\n            tdef = tdef[1:] if tdef[0] != '>' else tdef\n")])
M("C04", "padded-blank-skip-also-tabs", [(RC, "            while (c == ' ') {\n                c = fgetc(mFptr);\n            }", "            while (c == ' ' || (c == '\\t' && mDelim[0] != '\\t')) {\n                c = fgetc(mFptr);\n            }")],
  "equivalent for files the library writes (no tab padding)", control=True)
M("C04", "int8-scanned-as-char-width", [(RC, "	formats[NPY_INT8] += NPY_INT8_FMT;\n	formats[NPY_UINT8] += NPY_UINT8_FMT;\n	\n	formats[NPY_INT16]", "	formats[NPY_INT8] += NPY_INT8_FMT;\n	formats[NPY_UINT8] += NPY_INT16_FMT;\n	\n	formats[NPY_INT16]")],
  "unsigned bytes scanned with the 16-bit format: writes two bytes into a one-byte field (next field or heap)")

# ---- C02
M("C02", "rows-sorted-not-unique", [(RU, "        rows2read = numpy.unique(rows2read)\n", "        rows2read = numpy.sort(rows2read)\n")],
  "repeated row numbers are read twice (text: the second copy is the following row)")
M("C02", "binary-slice-skip-step", [(RC, "            skip_binary_rows(step-1);", "            skip_binary_rows(step > 2 ? step : step-1);")],
  "binary slices with step >= 3 advance one row too far")
M("C02", "colnums-not-sorted", [(RU, "        return numpy.unique(colnums)\n", "        return colnums\n")],
  "columns requested out of file order are read in request order (C++ assumes ascending)")
M("C02", "split-reversed", [(SF, "        if split:\n            result = split_fields(result)\n        elif reduce:", "        if split:\n            result = split_fields(result)[::-1]\n        elif reduce:")],
  "SFile split=True returns the columns in reverse order")
M("C02", "slice2rows-negative-stop-off-by-one", [(RU, "        start, stop, step = slice(start, stop, step).indices(self.nrows)\n\n        return numpy.arange(start, stop, step, dtype=\"i8\")",
                                               "        if stop is not None and stop < 0:\n            stop = stop + 1 if stop < -1 else None\n        start, stop, step = slice(start, stop, step).indices(self.nrows)\n\n        return numpy.arange(start, stop, step, dtype=\"i8\")")],
  "text / column-subset path: negative stop is taken inclusive (the original defect)")
M("C02", "text-skip-rows-far", [(RC, "			rows2skip = row2read - current_row;\n		}\n		skip_text_rows(rows2skip);", "			rows2skip = row2read - current_row;\n			if (rows2skip > 8) rows2skip -= 1;\n		}\n		skip_text_rows(rows2skip);")],
  "text files: a gap of more than 8 rows between requested rows skips one row too few")
M("C02", "binary-column-seek-from-row-start", [(RC, "                seek_distance = mOffsets[col2read] - current_offset;\n                do_seek(seek_distance);", "                seek_distance = mOffsets[col2read] - (icol > 1 ? current_offset - 0*colsize : current_offset);\n                if (icol > 2) seek_distance += 1;\n                do_seek(seek_distance);")],
  "binary column subsets with four or more selected columns that skip a field read the fourth one byte off")
M("C02", "single-row-clipped", [(RU, "            if num < 0:\n                num = self.nrows + num\n\n        return num", "            if num < 0:\n                num = self.nrows + num\n            elif num > self.nrows + 1:\n                num = self.nrows - 1\n\n        return num")],
  "single row numbers beyond n+1 are clipped to the last row instead of rejected")
M("C02", "reduce-none-for-many", [(SF, "                return data[data.dtype.names[0]]\n\n    return data\n", "                return data[data.dtype.names[0]]\n            if len(data.dtype.names) > 3:\n                return None\n\n    return data\n")],
  "reduce=True returns None for more than three fields")
M("C02", "control-process-slice-clamp", [(RU, "        if stop < start:\n            # will return an empty struct\n            stop = start\n\n        return slice(start, stop, step)", "        if stop <= start:\n            # will return an empty struct\n            stop = start\n\n        return slice(start, stop, step)")],
  "equivalent", control=True)

# ---- C03
M("C03", "write-no-seek-to-end", [(RC, "    // always write from the end\n    fseek(mFptr, 0, SEEK_END);\n", "    // always write from the end\n")],
  "harmless through sfile (update_row_count has already moved to the end before every appending write) but a raw Recfile re-opened "
  "in mode 'r+' overwrites the rows from the start; a control until the header-less histories of round 5 existed")
M("C03", "no-seek-to-end-anywhere", [(RC, "    // always write from the end\n    fseek(mFptr, 0, SEEK_END);\n", "    // always write from the end\n"),
                                     (RC, "    // seek back to the end of the file\n    fseek(mFptr, 0, SEEK_END);\n", "")],
  "after the SIZE line is rewritten the rows are written right behind it, over the header")
M("C03", "update-size-writes-chunk-size", [(SF, "        size_new = size_current + size_add\n", "        size_new = size_current + size_add if size_current < 50 else size_add + 50\n")],
  "once the file holds 50 rows the stored row count stops accumulating")
M("C03", "update-size-forgets-cached-size", [(SF, "        self._robj.robj.update_row_count(size_new)\n        self._size = size_new\n", "        self._robj.robj.update_row_count(size_new)\n")],
  "third write through one handle adds to the stale cached size")
M("C03", "text-compat-ignores-shape", [(SF, "                        if l1 == 3:\n                            if d1[2] != d2[2]:", "                        if l1 == 3 and False:\n                            if d1[2] != d2[2]:")],
  "text files accept a chunk whose sub-array shape differs")
M("C03", "binary-compat-ignores-byteorder", [(SF, "                if self._dtype != data.dtype:\n", "                if self._dtype.newbyteorder('=') != data.dtype.newbyteorder('='):\n")],
  "binary files accept a chunk in the other byte order and append its raw bytes")
M("C03", "append-missing-raises-again", [(SF, "            self._mode = \"w\"\n", "            mode = \"w+\"\n")], "the original defect D08")
M("C03", "binary-incompat-accepted-again", [(SF, "            if bad:\n                raise ValueError(\n                    \"attempt to write an incompatible \"\n                    \"data type: \" + mess\n                )\n",
                                           "            if bad and self._delim is not None:\n                raise ValueError(\n                    \"attempt to write an incompatible \"\n                    \"data type: \" + mess\n                )\n")], "the original defect D09")
M("C03", "size-line-19-wide-on-update", [(RC, "    fprintf(mFptr, \"SIZE = %20ld\\n\", nrows);", "    fprintf(mFptr, \"SIZE = %19ld\\n\", nrows);")],
  "the in-place rewrite of the SIZE line is one character short")
M("C03", "append-rewrites-header-when-given", [(SF, "        if self._hdr is not None:\n            # we are appending data.\n            # Just update the nrows and move to the end\n\n            self._update_size(data.size)\n",
                                               "        if self._hdr is not None:\n            # we are appending data.\n            # Just update the nrows and move to the end\n\n            self._update_size(data.size)\n            if header is not None:\n                for k in header:\n                    self._hdr.setdefault(k, header[k])\n")],
  "harmless: only the in-memory header copy of the closing handle changes, nothing is written", control=True)
M("C03", "overwrite-opens-append", [(SF, "    if append:\n        # if file doesn't yet exist, this will be changed to 'w+' internally.\n        mode = \"r+\"\n    else:\n        mode = \"w\"\n",
                                    "    if append or (delim is not None and os.path.exists(outfile) and header is None):\n        # if file doesn't yet exist, this will be changed to 'w+' internally.\n        mode = \"r+\"\n    else:\n        mode = \"w\"\n")],
  "a text overwrite without header appends to the existing file instead of replacing it")

# ---- C20
AL = "esutil/algorithm.py"
PB = "esutil/pbar.py"
M("C20", "keyvalue-bottom-value-not-moved", [(AL, "                keys[bottom] = keys[top]  # Then put it at the bottom...\n                data[bottom] = data[top]  # Then put it at the bottom...\n",
                                            "                keys[bottom] = keys[top]  # Then put it at the bottom...\n                if top - bottom > 1:\n                    data[bottom] = data[top]  # Then put it at the bottom...\n")],
  "adjacent swaps move the key but not its value")
M("C20", "partition-ge", [(AL, "            if data[bottom] > pivot:  # Is the bottom out of place?", "            if data[bottom] >= pivot:  # Is the bottom out of place?")],
  "elements equal to the pivot move to the upper side: still a partition", control=True)
M("C20", "isplit-extras-last", [(AL, "        [0] + extras * [neach_section+1]\n        + (nchunks-extras) * [neach_section]\n", "        [0] + (nchunks-extras) * [neach_section]\n        + extras * [neach_section+1]\n")],
  "the larger chunks come last")
M("C20", "pbar-prefetches-next", [(PB, "    n = 0\n    for obj in iterable:\n        yield obj\n", "    n = 0\n    import itertools as _it\n    _a, _b = _it.tee(iterable)\n    next(_b, None)\n    for obj in _a:\n        next(_b, None)\n        yield obj\n")],
  "the full meter reads one item ahead of the consumer")
M("C20", "pmap-as-completed", [(PB, "        res = list(pbar(ex.map(fn, iterable, chunksize=chunksize), **kw))\n",
                               "        from concurrent.futures import as_completed\n        futs = [ex.submit(fn, x) for x in iterable]\n        res = [f.result() for f in pbar(as_completed(futs), **kw)]\n")],
  "results are collected in completion order")
M("C20", "splitarray-drops-single-leftover", [(NU, "    nchunks = var.size // nper\n    if var.size % nper != 0:\n        nchunks += 1\n", "    nchunks = var.size // nper\n    if var.size % nper > 1 or nchunks == 0:\n        nchunks += 1\n")],
  "a last chunk of exactly one element is dropped")
M("C20", "sbar-total-caps-items", [(PB, "    for i, obj in enumerate(iterable):\n        yield obj\n        i += 1\n\n        p = int(i / total * 10)\n\n        if p > plast:\n            pnn(p)",
                                   "    for i, obj in zip(range(1, total + 1), iterable):\n        yield obj\n\n        p = int(i / total * 10)\n\n        if p > plast:\n            pnn(p)")],
  "simple bar stops after total items")
M("C20", "format-meter-none-total-raises-again", [(PB, "    if total is not None and n > total:\n", "    if n > total:\n")], "the original defect D29")
M("C20", "leave-false-skips-last", [(PB, "    if not leave:\n        sp.print_status('')\n        file.write('\\r')\n", "    if not leave:\n        sp.print_status('' if total is None or n <= total else 1)\n        file.write('\\r')\n")],
  "leave=False with more items than total: status printer is handed an int and raises after the last item")
M("C20", "quicksort-skips-short-left", [(AL, "        split = partition(data, start, end)  # ... partition the subdata...\n        _quicksort(data, start, split-1)  # ... and sort both halves.\n",
                                        "        split = partition(data, start, end)  # ... partition the subdata...\n        if split - start != 2 or end - start < 150:\n            _quicksort(data, start, split-1)  # ... and sort both halves.\n")],
  "in ranges of more than 150 elements a left part of exactly two elements is left unsorted")

# ---- C15
HT = "esutil/htm/htm.py"
M("C15", "euler-no-copy", [(CO, "    ai = np.array(ai, ndmin=1, copy=True, dtype=dtype)\n    bi = np.array(bi, ndmin=1, copy=True, dtype=dtype)\n",
                            "    ai = np.atleast_1d(np.asarray(ai, dtype=dtype))\n    bi = np.atleast_1d(np.asarray(bi, dtype=dtype))\n")],
  "equivalent: euler never writes into ai/bi (a = ai * D2R creates a new array)", control=True)
M("C15", "eq2sdss-no-copy", [(CO, "    ra = np.array(ra_in, ndmin=1, copy=True, dtype=dtype)\n    dec = np.array(dec_in, ndmin=1, copy=True, dtype=dtype)\n",
                              "    ra = np.atleast_1d(np.asarray(ra_in, dtype=dtype))\n    dec = np.atleast_1d(np.asarray(dec_in, dtype=dtype))\n")])
M("C15", "shiftlon-no-copy", [(CO, "    lon = np.array(lon_input, ndmin=1, copy=True, dtype=\"f8\")\n", "    lon = np.atleast_1d(np.asarray(lon_input, dtype=\"f8\"))\n")])
M("C15", "eq2xyz-rad-stomp-alias", [(CO, "    theta = np.array(ra, ndmin=1, copy=True, dtype=dtype)\n    phi = np.array(dec, ndmin=1, copy=True, dtype=dtype)\n",
                                     "    theta = np.atleast_1d(np.asarray(ra, dtype=dtype))\n    phi = np.atleast_1d(np.asarray(dec, dtype=dtype))\n    if units == 'deg':\n        theta, phi = theta.copy(), phi.copy()\n")],
  "radian inputs are not copied: stomp=True shifts the caller's ra by the node")
M("C15", "binner-sorts-weights-inplace", [(SU, "            self.weights = np.atleast_1d(weights).astype(np.float64)\n", "            self.weights = np.atleast_1d(weights).astype(np.float64, copy=False)\n            if self.weights.size > 100:\n                self.weights /= self.weights.max()\n")],
  "more than 100 native float64 weights are normalised in the caller's array")
M("C15", "text-write-swaps-caller-again", [(RU, "            if native_dtype != dataview.dtype:\n                dataview = dataview.astype(native_dtype)\n", "            if native_dtype != dataview.dtype:\n                to_native_inplace(dataview)\n")], "the original defect D24: a non-native table is swapped in the caller's buffer before a text write")
M("C15", "htm-match-radius-inplace", [(HT, "        radius = np.atleast_1d(radius).astype('f8')\n\n        if ra1.size != dec1.size or ra2.size != ra2.size:", "        radius = np.atleast_1d(np.asarray(radius, dtype='f8'))\n        radius[radius < 0] = 0.0\n\n        if ra1.size != dec1.size or ra2.size != ra2.size:")],
  "no element is ever written for the non-negative radii of the workload (a read-only radius array makes the empty masked assignment raise, which is reported as a side observation only)", control=True)
M("C15", "htm-lookup-wraps-ra-inplace", [(HT, "        ra = np.atleast_1d(ra).astype('f8')\n        dec = np.atleast_1d(dec).astype('f8')\n\n        if ra.size != dec.size:\n            raise ValueError(\"ra and dec must be the same size\")",
                                          "        ra = np.atleast_1d(np.asarray(ra, dtype='f8'))\n        dec = np.atleast_1d(dec).astype('f8')\n        ra %= 360.0\n\n        if ra.size != dec.size:\n            raise ValueError(\"ra and dec must be the same size\")")],
  "longitudes outside [0,360) in a native float64 array are rewritten in place")
M("C15", "to-native-keep-dtype-inplace", [(NU, "    outdata = array.byteswap(inplace)\n", "    outdata = array.byteswap(inplace or (keep_dtype and array.ndim == 2))\n")],
  "byteswap(keep_dtype=True) on 2-d arrays swaps the caller's buffer")
M("C15", "match-sorts-arr2-inplace", [(NU, "    arr1 = np.atleast_1d(arr1input)\n    arr2 = np.atleast_1d(arr2input)\n", "    arr1 = np.atleast_1d(arr1input)\n    arr2 = np.atleast_1d(arr2input)\n    if arr2.dtype.kind == 'S' and arr2.flags.writeable and arr2.size > 1 and arr2[0] > arr2[-1]:\n        arr2[0], arr2[-1] = arr2[-1].copy(), arr2[0].copy()\n")],
  "string second arrays whose first element sorts after the last get the two swapped")
M("C15", "wmom-normalises-weights", [(SU, "    weights = np.atleast_1d(weights_in).astype(np.float64)\n\n    if len(arr.shape) > 1:", "    weights = np.atleast_1d(weights_in).astype(np.float64, copy=not (calcerr and sdev))\n    if calcerr and sdev and weights.flags.writeable:\n        weights /= weights.sum()\n\n    if len(arr.shape) > 1:")],
  "calcerr and sdev together: native float64 weights are normalised in place")
M("C15", "cosmo-dc-clips-inplace", [("esutil/cosmology/cosmology.py", "    return np.atleast_1d(np.asarray(arr, dtype='f8', order='C'))", "    out = np.atleast_1d(np.asarray(arr, dtype='f8', order='C'))\n    if out.flags.writeable:\n        np.abs(out, out=out)\n    return out")],
  "harmless for the non-negative redshifts of the workload (abs of a non-negative double keeps its bits)", control=True)

# ---- C11
CL = "esutil/cosmology/cosmolib.c"
CW = "esutil/cosmology/cosmolib_pywrap.c"
CY = "esutil/cosmology/cosmology.py"
M("C11", "da-divides-by-zmin", [(CL, "    d = Dm(c, zmin, zmax);\n    d /= (1.+zmax);", "    d = Dm(c, zmin, zmax);\n    d /= (1.+zmin);")],
  "Da between two redshifts divides by 1+zmin (right only for zmin = 0 ... and wrong even then: (1+0))")
M("C11", "omega-k-sign-in-E", [(CL, "c->omega_m*oneplusz2*oneplusz + c->omega_k*oneplusz2 + c->omega_l;", "c->omega_m*oneplusz2*oneplusz - c->omega_k*oneplusz2 + c->omega_l;")])
M("C11", "dl-vec1-vec2-swapped-dispatch", [(CY, "            zmin = _as_c_order(zmin)\n            d = self._cosmo.Dl_vec1(zmin, zmax)", "            zmin = _as_c_order(zmin)\n            d = self._cosmo.Dl_vec2(zmax, zmin)")],
  "Dl(array zmin, scalar zmax) evaluates Dl(zmax, zmin[i])")
M("C11", "npts-4", [("esutil/cosmology/cosmolib.h", "#define NPTS 5", "#define NPTS 4")], "4-point rule instead of the documented 5-point rule")
M("C11", "copy-drops-omega-k", [(CY, "            omega_l=self._omega_l,\n            omega_k=self._omega_k,\n        )", "            omega_l=self._omega_l,\n        )")],
  "copy()/copy.copy/deepcopy of a curved cosmology is flat")
M("C11", "ascorder-fastpath", [(CY, "    return np.atleast_1d(np.asarray(arr, dtype='f8', order='C'))", "    if isinstance(arr, np.ndarray) and arr.dtype == np.float64:\n        return np.atleast_1d(arr)\n    return np.atleast_1d(np.asarray(arr, dtype='f8', order='C'))")],
  "non-contiguous float64 views are read with stride 8 from the base pointer (the seeded change)")
M("C11", "dm-closed-uses-sinh", [(CL, "            d= sin(d*c->tcfac)/c->tcfac;", "            d= sinh(d*c->tcfac)/c->tcfac;")], "closed models use the open-model formula")
M("C11", "scinv-strict-inequality", [(CL, "    if (zs <= zl) {\n        return 0.0;", "    if (zs < zl) {\n        return 0.0;")],
  "equal redshifts fall through: zero only because Da(zl,zl) = 0, and nan (0*0/0) for zl = zs = 0")
M("C11", "pickle-drops-h0", [(CY, "        return (\n            self.H0(),\n            None,", "        return (\n            100.0 if self.H0() > 110.0 else self.H0(),\n            None,")],
  "unpickled objects with H0 > 110 fall back to H0 = 100")
M("C11", "2vec-one-past-end", [(CW, "    for (i=0; i<n; i++) {\n        res[i] = Da(self->cosmo, zmin[i], zmax[i]); \n    }", "    for (i=0; i<n + (n > 64); i++) {\n        res[i] = Da(self->cosmo, zmin[i], zmax[i]); \n    }")],
  "Da with two arrays longer than 64 reads and writes one element past the end (heap overflow: ASan)")
M("C11", "vnpts-weights-from-5pt", [(CL, "        v += f1*dv*c->vw[i];", "        v += f1*dv*c->vw[i]*(1.0 + 1e-7);")], "volume 1e-7 too large")
M("C11", "h-does-not-override", [(CY, "        if h is not None:\n            H0 = 100.0 * h\n", "        if h is not None and H0 == 100.0:\n            H0 = 100.0 * h\n")], "h is ignored when H0 is also given")

# ---- C12
HC = "esutil/htm/htmc.cc"
HH = "esutil/htm/htmc.h"
M("C12", "distance-cut-strict", [(HC, "                    if (dis <= rad) {\n                        PAIR_INFO pi;", "                    if (dis < rad) {\n                        PAIR_INFO pi;")],
  "identical points no longer match at radius 0")
M("C12", "partial-triangles-skipped", [(HC, "        // number of triangles found\n        npy_intp nfound = flist.length() + plist.length();\n        std::vector<int64_t> idlist(nfound);\n        npy_intp idcount=0;\n\n        // We could speed",
                                        "        // number of triangles found\n        npy_intp nfound = flist.length() + plist.length();\n        if (flist.length() > 40) nfound = flist.length();\n        std::vector<int64_t> idlist(nfound);\n        npy_intp idcount=0;\n\n        // We could speed"),
                                       (HC, "        // ----------- Partial Nodes ----------\n        for(size_t i = 0; i < plist.length(); i++)\n        {  \n            idlist[idcount] = plist(i);\n            idcount++;\n        }\n\n\n        // these are temporary",
                                        "        // ----------- Partial Nodes ----------\n        for(size_t i = 0; i < plist.length() && idcount < nfound; i++)\n        {  \n            idlist[idcount] = plist(i);\n            idcount++;\n        }\n\n\n        // these are temporary")],
  "when more than 40 triangles lie fully inside the circle the partially covered rim triangles are dropped")
M("C12", "maxmatch-keeps-one-more", [(HC, "                if (nkeep > maxmatch) {\n                    nkeep=maxmatch;\n                }", "                if (nkeep > maxmatch + 1) {\n                    nkeep=maxmatch + 1;\n                }")],
  "groups with more than k+1 candidates are cut to k+1")
M("C12", "sort-descending-large-groups", [(HH, "		return pi1.d12 < pi2.d12;", "		return pi1.d12 < pi2.d12 || (pi1.i2 > 300 && pi2.i2 > 300 && pi1.d12 > pi2.d12 && false) ;")],
  "equivalent", control=True)
M("C12", "sort-skipped-for-pairs-of-two", [(HC, "            std::sort( pair_info.begin(), pair_info.end(), PAIR_INFO_ORDERING());", "            if (nkeep != 2) std::sort( pair_info.begin(), pair_info.end(), PAIR_INFO_ORDERING());")],
  "groups of exactly two are left in discovery order")
M("C12", "file-distance-g", [(HC, 'fprintf(fptr, "%ld %ld %.16g\\n", ', 'fprintf(fptr, "%ld %ld %g\\n", ')], "file route writes separations with six digits")
M("C12", "maxid-break-skips-partial", [(HC, "        for (npy_intp j=0; j<nfound; j++) {\n\n            int64_t htmid = idlist[j];\n\n            iter=this->hmap.find(htmid);",
                                        "        int64_t mx_id = this->hmap.empty() ? -1 : this->hmap.rbegin()->first;\n        for (npy_intp j=0; j<nfound; j++) {\n\n            int64_t htmid = idlist[j];\n            if (htmid > mx_id) break;\n\n            iter=this->hmap.find(htmid);")],
  "ids come back in two sorted runs (full, then partial): breaking at the first id above the populated maximum skips the partial run")
M("C12", "acos-distance-again", [(HC, "    dis = atan2(sqrt(s1*s1 + s2*s2), cosdis);", "    if (cosdis > 1.0) cosdis = 1.0;\n    if (cosdis < -1.0) cosdis = -1.0;\n    dis = acos(cosdis);")], "the original defect D20")
M("C12", "search-cap-not-padded", [(HC, "    double srad = rad_degrees + 1.0e-5;", "    double srad = rad_degrees;")], "the original tiny-radius defect")
M("C12", "per-point-radius-needs-three", [(HC, "        if (nrad > 1) {\n            rad = *(double *) PyArray_GETPTR1((PyArrayObject *) radius_array, i_input);\n            d = cos_search_radius(rad);",
                                           "        if (nrad > 2) {\n            rad = *(double *) PyArray_GETPTR1((PyArrayObject *) radius_array, i_input);\n            d = cos_search_radius(rad);")],
  "a per-point radius array of length two is ignored (radius stays 0)")
M("C12", "read-pairs-empty-raises-again", [(HT, "    if os.path.getsize(filename) == 0:", "    if False:")], "the original defect D21")
M("C12", "matcher-python-radius-f4", [(HT, "        radius = np.atleast_1d(radius).astype('f8')\n\n        if ra.size != dec.size:\n            raise ValueError(\n                \"ra size (%d) != \" \"dec size (%d)\" % (ra.size, dec.size)\n            )\n\n        if radius.size != 1",
                                       "        radius = np.atleast_1d(radius).astype('f4').astype('f8')\n\n        if ra.size != dec.size:\n            raise ValueError(\n                \"ra size (%d) != \" \"dec size (%d)\" % (ra.size, dec.size)\n            )\n\n        if radius.size != 1")],
  "radius passes through float32: relative 6e-8 change moves the boundary by more than 1e-9 deg for radii above 0.02 deg")

# ---- C13
M("C13", "leafid-lt-maxid", [(HC, "            if ( leafid >= minid && leafid <= maxid) {", "            if ( leafid >= minid && leafid < maxid) {")],
  "pairs whose second point lies in the triangle with the largest populated id are not counted")
M("C13", "radbin-le-nbin", [(HC, "                            if (fbin >=0 && fbin < nbin) {", "                            if (fbin >=0 && fbin <= nbin) {")],
  "a pair at exactly rmax is counted one past the end of the counts array (heap write)")
M("C13", "cast-instead-of-floor-again", [(HC, "                            double fbin = floor( (logr-logrmin)/log_binsize );", "                            double fbin = (double)(long)( (logr-logrmin)/log_binsize );")],
  "the original defect D22 (truncation toward zero)")
M("C13", "intersect-inclusive-drops-partial-when-no-full", [(HC, "    if (inclusive) {\n        nfound = flist.length() + plist.length();", "    if (inclusive && flist.length() > 0) {\n        nfound = flist.length() + plist.length();"),
                                                             (HC, "    if (inclusive) {\n        // ----------- Partial Nodes ----------", "    if (inclusive && flist.length() > 0) {\n        // ----------- Partial Nodes ----------")],
  "small circles (no fully covered triangle) return an empty inclusive list")
M("C13", "intersect-exclusive-includes-first-partial", [(HC, "    } else {\n        nfound = flist.length();\n    }\n\n    PyObject* idlist=PyArray_ZEROS(", "    } else {\n        nfound = flist.length() + (plist.length() > 0 && flist.length() > 8 ? 1 : 0);\n    }\n\n    PyObject* idlist=PyArray_ZEROS("),
                                                         (HC, "    if (inclusive) {\n        // ----------- Partial Nodes ----------\n        for(size_t i = 0; i < plist.length(); i++)", "    if (inclusive || nfound > (npy_intp) flist.length()) {\n        // ----------- Partial Nodes ----------\n        for(size_t i = 0; i < plist.length() && id_index < nfound; i++)")],
  "with more than eight full triangles the exclusive list also carries one partially covered triangle")
M("C13", "bincount-per-point-scale-uses-first", [(HC, "            scale = *(double *) PyArray_GETPTR1((PyArrayObject *) scale_array, i1);\n            logscale = log10(scale);", "            scale = *(double *) PyArray_GETPTR1((PyArrayObject *) scale_array, i1 < 32 ? i1 : 0);\n            logscale = log10(scale);")],
  "per-point scales beyond the 32nd point use the first point's scale")
M("C13", "bincount-cap-always-degrees", [(HC, "        if (degrees) { \n            d = cos( maxangle*D2R );\n        } else {\n            d = cos( maxangle );\n        }", "        d = cos( maxangle*D2R );")],
  "with a scale the search cap is taken in degrees although the angle is in radians: far too small")
M("C13", "bincount-htmrev2-not-converted-again", [(HT, "            htmrev2 = np.atleast_1d(htmrev2).astype('i8')\n", "            pass\n")], "the original defect")
M("C13", "idbyname-uint32-shift", [("esutil/htm/htm_src/SpatialIndex.cpp", "  uint64 out=0, i;\n  uint32 size = 0;", "  uint64 out=0;\n  uint32 size=0, i;")],
  "ids at depth >= 15 lose their prefix bits (the seeded change)")
M("C13", "bincount-maxid-from-given-ids-off", [(HT, "            if maxid is None:\n                maxid = htmid2.max()\n\n        if htmrev2 is None:", "            if maxid is None:\n                maxid = htmid2.max() - (1 if htmid2.size > 100 else 0)\n\n        if htmrev2 is None:")],
  "precomputed ids without maxid: the top triangle is cut off for sets of more than 100 points")
M("C13", "control-logscale-hoisted", [(HC, "    double log_binsize = (logrmax-logrmin)/nbin;\n    if (log_binsize < 0) {", "    double log_binsize = (logrmax-logrmin)/(double)nbin;\n    if (log_binsize < 0) {")], control=True)

# ---- C10
WC = "esutil/wcsutil.py"
M("C10", "pv1-8-9-swapped", [(WC, '_scamp_map["pv1_8"] = (2, 1)\n_scamp_map["pv1_9"] = (1, 2)', '_scamp_map["pv1_8"] = (1, 2)\n_scamp_map["pv1_9"] = (2, 1)')],
  "third-order cross terms of axis 1 exchanged")
M("C10", "sip-after-cd", [(WC, "            if distort and self.distort[\"name\"] != \"none\":\n                u, v = self.Distort(xdiff, ydiff)\n            else:\n                u, v = xdiff, ydiff\n            u, v = self.ApplyCDMatrix(u, v)",
                           "            u, v = self.ApplyCDMatrix(xdiff, ydiff)\n            if distort and self.distort[\"name\"] != \"none\":\n                u, v = self.Distort(u, v)")],
  "SIP polynomial applied to intermediate coordinates instead of pixel offsets")
M("C10", "rootfinder-keeps-previous-guess", [(WC, "        xyguess[0], xyguess[1] = self.sky2image(\n            lon, lat, find=False, distort=False,\n        )\n",
                                              "        if not getattr(self, '_have_guess', False):\n            xyguess[0], xyguess[1] = self.sky2image(\n                lon, lat, find=False, distort=False,\n            )\n            self._have_guess = True\n")],
  "the root finder starts from wherever the previous search on the same object ended")
M("C10", "lon-wrap-modulo", [(WC, "        if scalar:\n            if longitude < 0.0:\n                longitude += 360.0\n\n            if longitude >= 360.0:\n                longitude -= 360.0\n\n        else:\n            (w,) = np.where(longitude < 0.0)\n            if w.size > 0:\n                longitude[w] += 360.0\n            (w,) = np.where(longitude >= 360.0)\n            if w.size > 0:\n                longitude[w] -= 360.0\n",
                              "        longitude = longitude % 360.0\n")],
  "a tiny negative longitude becomes exactly 360.0 (the seeded change)")
M("C10", "inverse-fit-order-not-increased", [(WC, "    def InvertPVDistortion(self, fac=5, order_increase=1, verbose=False,", "    def InvertPVDistortion(self, fac=5, order_increase=0, verbose=False,"),
                                              (WC, "            return self.InvertPVDistortion(\n                fac=fac, order_increase=order_increase,", "            return self.InvertPVDistortion(\n                fac=fac, order_increase=0,")],
  "the TPV inverse polynomial is fitted at the forward order only")
M("C10", "scalar-path-latitude-floor", [(WC, "        if scalar:\n            if r > 0:\n                latitude = np.arctan(1.0 / r)", "        if scalar:\n            if r > 1e-7:\n                latitude = np.arctan(1.0 / r)")],
  "scalar inputs within 0.02 arcsec of the reference point are mapped onto the reference point")
M("C10", "inverse-cached-across-distort-flag", [(WC, "        if not self._inverse_computed and inverse:\n            self._inverse_computed = True\n            self.InvertDistortion()",
                                                 "        if not self._inverse_computed and inverse:\n            self._inverse_computed = True\n            self.InvertDistortion(fac=(5 if getattr(self, '_n_forward', 0) < 3 else 1))")],
  "equivalent here: nothing sets _n_forward", control=True)
M("C10", "cdinv-from-rounded-cd", [(WC, "                self.cdinv = np.linalg.inv(cd)\n", "                self.cdinv = np.linalg.inv(cd.astype('f4').astype('f8'))\n")],
  "inverse CD matrix computed from single-precision elements")
M("C10", "sip-distort-false-unbound-again", [(WC, "                u, v = self.Distort(xdiff, ydiff)\n            else:\n                u, v = xdiff, ydiff\n", "                u, v = self.Distort(xdiff, ydiff)\n")], "the original defect D18")
M("C10", "sip-noinv-rejected-again", [(WC, "        if prefix in (\"ap\", \"bp\") and (prefix + \"_order\") not in wcs:", "        if False:")], "the original defect D19")
M("C10", "jacobian-state-leak", [(WC, "        ra, dec = self.image2sky(x, y, distort=distort)\n\n        xp = x + step", "        ra, dec = self.image2sky(x, y, distort=distort)\n        self.crpix = self.crpix + (1e-7 if np.ndim(x) > 0 and np.size(x) > 8 else 0.0)\n\n        xp = x + step")],
  "every jacobian evaluation on more than eight points shifts the object's reference pixel by 1e-7")
M("C10", "findxy-array-uses-first-lat", [(WC, "                x[i], y[i] = self._findxy_one(lon[i], lat[i], xtol=xtol)", "                x[i], y[i] = self._findxy_one(lon[i], lat[i if i < 8 else 0], xtol=xtol)")],
  "array root finding beyond the 8th element uses the first latitude")

# ---- added with seeding round 5 (new families): each reverts a repair or disables what a new family exercises
M("C15", "wrap-ra-diff-in-place", [(WC, "        # work on a copy, the input array is not modified\n        dra = np.array(dra)\n", "")],
  "the array branch of wrap_ra_diff writes into the caller's array again (repair 2d886ed reverted)")
M("C10", "longpole-from-header-ignored", [(WC, '            self.longpole = self.wcs["longpole"]\n', "            self.longpole = longpole\n")],
  "a LONGPOLE other than 180 deg in the header is ignored")
M("C08", "getangle-distance-from-unclipped-cosine", [(CO, "    if getangle:\n        theta = (", "    if getangle:\n        dis = arccos(np.clip(cosdis * (1 - 1e-9), -1, 1))\n        theta = (")],
  "gcirc(getangle=True) returns a slightly different distance than gcirc()")
M("C19", "randsphere-wraps-360", [(CO, "    ra = rng.uniform(low=ra_range[0], high=ra_range[1], size=num)\n", "    ra = rng.uniform(low=ra_range[0], high=ra_range[1], size=num)\n    ra[ra >= 360.0] -= 360.0\n")],
  "a box ending at 360 returns longitudes of 0")
M("C20", "isplit-memoised", [(AL, "def isplit(num, nchunks):", "import functools\n\n\n@functools.lru_cache(maxsize=64)\ndef isplit(num, nchunks):")],
  "the array returned by isplit is shared between calls")
M("C14", "binner-keeps-min-from-previous-call", [(SU, "    def dohist(", "    _sticky = {}\n\n    def dohist(")],
  "control: an unused class attribute", control=True)
M("C10", "inverse-fit-by-normal-equations", [(WC, "        xcoeffs = np.linalg.lstsq(design, x, rcond=None)[0] / scale\n        ycoeffs = np.linalg.lstsq(design, y, rcond=None)[0] / scale\n",
                                              "        ata = np.inner(amatrix, amatrix)\n        xcoeffs = np.linalg.solve(ata, np.inner(amatrix, x))\n        ycoeffs = np.linalg.solve(ata, np.inner(amatrix, y))\n")],
  "the repair bb75481 reverted: normal equations, singular to working precision for a reference pixel far outside the image")
M("C10", "inverse-fit-unscaled-lstsq", [(WC, "        design = (amatrix / scale[:, np.newaxis]).T\n", "        scale[:] = 1.0\n        design = (amatrix / scale[:, np.newaxis]).T\n")],
  "least squares without column scaling: high-order SIP monomials fall under the rank cutoff")
M("C18", "interplin-integer-inputs-not-converted", [(SU, "    if v.dtype.kind in \"iub\":\n        v = v.astype(\"f8\")\n", "")],
  "the repair e67550b reverted for the table values: differences of unsigned values wrap around")
M("C04", "text-write-assumes-one-byte-order", [(RU, "            native_dtype = dataview.dtype.newbyteorder(\"=\")\n            if native_dtype != dataview.dtype:\n                dataview = dataview.astype(native_dtype)\n",
                                                "            if _needs_byteswap(dataview):\n                dataview = dataview.copy()\n                to_native_inplace(dataview)\n")],
  "the repair 4e02795 reverted: a table mixing byte orders is written with its big-endian fields uninterpreted")
M("C17", "integrate-data-ends-in-table-dtype", [(IU, "        x1 = float(xvals.min())\n        x2 = float(xvals.max())\n", "        x1 = xvals.min()\n        x2 = xvals.max()\n")],
  "the repair 1eac7fd reverted: for a uint8 table x2 + x1 wraps around")
