#!/venv/bin/python
"""Mechanical mutation sweep aimed by line coverage.

For every site of a few operator classes in the Python sources the properties are anchored in, make the one-token
change in a scratch copy of $VERIF_REPO/esutil and run the quick checks (plain build only) of the properties whose
workload executes that line (selftest/linecov/*.json, from tools/linecov.py).  A mutant is *caught* when one of them
exits 1, *inconclusive* when one exits 2 and none exits 1, *survived* when all exit 0; for survivors the repository's
own suite is run as well (a survivor the suite kills is of no interest).  Lines no workload executes are listed as
*unreached* and not mutated.

Operator classes (the ones the blind seeding rounds kept producing):
  none-falsy   `x is None` -> `not x`, `x is not None` -> `x`            (an explicit 0 / empty value treated as absent)
  bound        `<` <-> `<=`, `>` <-> `>=`                                  (boundary included / excluded)
  plusminus1   `e + 1` -> `e`, `e - 1` -> `e`                              (off by one)
  nocopy       `x.copy()` -> `x`, `copy=True` -> `copy=False`,
               `np.array(x, ...)` -> `np.asarray(x, ...)`                  (result or scratch aliases the caller's array)
  arith        `+` <-> `-`, `*` <-> `/`          boolop  `and` <-> `or`          unary  a leading `-` / `not` dropped
               (is every computed quantity judged by some oracle?)

usage: selftest/opsweep.py [--files substr,...] [--classes a,b] [--jobs 4] [--limit N] [--resume]
Results: selftest/opsweep.json (one record per site, keyed file:line:col:class); tools/opsweep_table.py summarises.
This is a test of the monitors, not a check: nothing registered in MANIFEST.json uses it.
"""
import argparse
import ast
import glob
import json
import os
import shutil
import subprocess
import sys
import tempfile
import time
from concurrent.futures import ThreadPoolExecutor

HERE = os.path.dirname(os.path.abspath(__file__))
VERIF = os.path.dirname(HERE)
REPO = os.environ.get("VERIF_REPO", "/repo")
FILEMAP = {"stat/util.py": ["C05", "C14", "C18"], "numpy_util.py": ["C06", "C07", "C16", "C20"], "coords.py": ["C08", "C09", "C19"],
           "wcsutil.py": ["C10"], "cosmology/cosmology.py": ["C11"], "htm/htm.py": ["C12", "C13"],
           "sfile.py": ["C01", "C02", "C03", "C04"], "recfile/Util.py": ["C01", "C02", "C03", "C04"], "integrate/util.py": ["C17"],
           "random.py": ["C19"], "algorithm.py": ["C20"], "pbar.py": ["C20"], "io.py": ["C01", "C04"]}
SWAP = {ast.Lt: "<=", ast.LtE: "<", ast.Gt: ">=", ast.GtE: ">"}
TOK = {ast.Lt: "<", ast.LtE: "<=", ast.Gt: ">", ast.GtE: ">="}
ARITH = {ast.Add: "-", ast.Sub: "+", ast.Mult: "/", ast.Div: "*"}
TOKA = {ast.Add: "+", ast.Sub: "-", ast.Mult: "*", ast.Div: "/"}


def seg(lines, node):
    """source text of a single-line node"""
    if node.lineno != node.end_lineno:
        return None
    return lines[node.lineno - 1][node.col_offset:node.end_col_offset]


def sites(relfile, src):
    lines = src.split("\n")
    tree = ast.parse(src)
    out = []

    def add(node, cls, new, what):
        old = seg(lines, node)
        if old is None or old == new:
            return
        out.append({"file": relfile, "line": node.lineno, "col": node.col_offset, "end": node.end_col_offset, "class": cls,
                    "old": old, "new": new, "what": what})

    for node in ast.walk(tree):
        if isinstance(node, ast.Compare) and len(node.ops) == 1:
            op, right = node.ops[0], node.comparators[0]
            left = seg(lines, node.left)
            r = seg(lines, right)
            if left is None or r is None:
                continue
            if isinstance(op, ast.Is) and isinstance(right, ast.Constant) and right.value is None:
                add(node, "none-falsy", "(not %s)" % left, "is None -> falsy")
            elif isinstance(op, ast.IsNot) and isinstance(right, ast.Constant) and right.value is None:
                add(node, "none-falsy", "bool(%s)" % left, "is not None -> truthy")
            elif type(op) in SWAP:
                add(node, "bound", "%s %s %s" % (left, SWAP[type(op)], r), "%s -> %s" % (TOK[type(op)], SWAP[type(op)]))
        elif isinstance(node, ast.BinOp) and isinstance(node.op, (ast.Add, ast.Sub)) and isinstance(node.right, ast.Constant) \
                and node.right.value == 1 and type(node.right.value) is int:
            left = seg(lines, node.left)
            if left is not None:
                add(node, "plusminus1", "(%s)" % left, "%s 1 dropped" % ("+" if isinstance(node.op, ast.Add) else "-"))
        if isinstance(node, ast.BinOp) and type(node.op) in ARITH and node.lineno == node.end_lineno:
            strs = [isinstance(x, ast.Constant) and isinstance(x.value, (str, bytes)) or isinstance(x, ast.JoinedStr) for x in (node.left, node.right)]
            lt, rt = seg(lines, node.left), seg(lines, node.right)
            if not any(strs) and lt is not None and rt is not None:
                # the operator token sits between the operands
                between = lines[node.lineno - 1][node.left.end_col_offset:node.right.col_offset]
                tok = TOKA[type(node.op)]
                if between.count(tok) == 1 and between.strip("() ") == tok:
                    out.append({"file": relfile, "line": node.lineno, "col": node.left.end_col_offset, "end": node.right.col_offset, "class": "arith",
                                "old": between, "new": between.replace(tok, ARITH[type(node.op)]), "what": "%s -> %s" % (tok, ARITH[type(node.op)])})
        elif isinstance(node, ast.BoolOp) and len(node.values) == 2 and node.lineno == node.end_lineno:
            a_, b_ = node.values
            between = lines[node.lineno - 1][a_.end_col_offset:b_.col_offset]
            tok = "and" if isinstance(node.op, ast.And) else "or"
            if between.strip("() ") == tok:
                out.append({"file": relfile, "line": node.lineno, "col": a_.end_col_offset, "end": b_.col_offset, "class": "boolop",
                            "old": between, "new": between.replace(tok, "or" if tok == "and" else "and"), "what": "and <-> or"})
        elif isinstance(node, ast.UnaryOp) and isinstance(node.op, (ast.USub, ast.Not)) and not isinstance(node.operand, ast.Constant):
            inner = seg(lines, node.operand)
            if inner is not None:
                add(node, "unary", "(%s)" % inner, "unary %s dropped" % ("-" if isinstance(node.op, ast.USub) else "not"))
        if isinstance(node, ast.Call):
            f = node.func
            if isinstance(f, ast.Attribute) and f.attr == "copy" and not node.args and not node.keywords:
                base = seg(lines, f.value)
                if base is not None:
                    add(node, "nocopy", base, ".copy() removed")
            for kw in node.keywords:
                if kw.arg == "copy" and isinstance(kw.value, ast.Constant) and kw.value.value is True:
                    add(kw.value, "nocopy", "False", "copy=True -> copy=False")
            if isinstance(f, ast.Attribute) and f.attr == "array" and isinstance(f.value, ast.Name) and f.value.id in ("np", "numpy") \
                    and not any(kw.arg in ("copy", "ndmin") for kw in node.keywords):
                add(f, "nocopy", "%s.asarray" % f.value.id, "np.array -> np.asarray")
    return out


def load_cov():
    cov = {}
    for f in glob.glob(os.path.join(HERE, "linecov", "*.json")):
        cov[os.path.basename(f)[:-5]] = json.load(open(f))
    return cov


def run_one(site, props, jobs):
    root = tempfile.mkdtemp(prefix="esv-ops-")
    t0 = time.time()
    rec = dict(site, props=props, runs={})
    try:
        shutil.copytree(os.path.join(REPO, "esutil"), os.path.join(root, "esutil"), ignore=shutil.ignore_patterns("*.so", "__pycache__", "tests"))
        shutil.copytree(os.path.join(REPO, "esutil", "tests"), os.path.join(root, "esutil", "tests"))
        p = os.path.join(root, "esutil", site["file"])
        lines = open(p).read().split("\n")
        ln = lines[site["line"] - 1]
        assert ln[site["col"]:site["end"]] == site["old"], (ln, site)
        lines[site["line"] - 1] = ln[:site["col"]] + site["new"] + ln[site["end"]:]
        open(p, "w").write("\n".join(lines))
        try:
            compile("\n".join(lines), p, "exec")
        except SyntaxError as e:
            rec["verdict"] = "invalid"
            rec["note"] = str(e)[:100]
            return rec
        env = dict(os.environ, VERIF_REPO=root, VERIF_JOBS=str(jobs), VERIF_CASE_TIMEOUT=os.environ.get("OPSWEEP_CASE_TIMEOUT", "25"))
        verdict = "survived"
        for prop in props:
            try:
                r = subprocess.run([os.path.join(VERIF, "check"), prop, "--tier", "quick", "--no-evidence", "--no-san"], env=env,
                                   capture_output=True, text=True, timeout=1500)
                rc = r.returncode
                first = [l.strip()[:160] for l in r.stdout.split("\n") if l.startswith("  [")][:1]
            except subprocess.TimeoutExpired:
                rc, first = 2, ["check timed out"]
            rec["runs"][prop] = {"rc": rc, "first": first}
            if rc == 1:
                verdict = "caught"
                break
            if rc != 0:
                verdict = "inconclusive"
        rec["verdict"] = verdict
        if verdict == "survived":
            import importlib
            sys.path.insert(0, VERIF)
            srun = importlib.import_module("selftest.run")
            ok, tail = srun.suite(root)
            rec["suite_passes"] = ok
            rec["suite_tail"] = tail[:80]
        return rec
    except Exception as e:  # noqa
        rec["verdict"] = "error"
        rec["note"] = repr(e)[:200]
        return rec
    finally:
        rec["seconds"] = round(time.time() - t0, 1)
        shutil.rmtree(root, ignore_errors=True)


def main():
    ap = argparse.ArgumentParser()
    ap.add_argument("--files", default="")
    ap.add_argument("--classes", default="")
    ap.add_argument("--jobs", type=int, default=4)
    ap.add_argument("--limit", type=int, default=0)
    ap.add_argument("--resume", action="store_true")
    ap.add_argument("--redo", default="", help="with --resume: verdicts to run again, e.g. survived,inconclusive")
    ap.add_argument("--out", default=os.path.join(HERE, "opsweep.json"))
    a = ap.parse_args()
    cov = load_cov()
    done = {}
    if a.resume and os.path.exists(a.out):
        done = {r["key"]: r for r in json.load(open(a.out))}
    redo = set(filter(None, a.redo.split(",")))
    todo, unreached = [], []
    for f, props in FILEMAP.items():
        if a.files and not any(s in f for s in a.files.split(",")):
            continue
        src = open(os.path.join(REPO, "esutil", f)).read()
        for s in sites(f, src):
            if a.classes and s["class"] not in a.classes.split(","):
                continue
            s["key"] = "%s:%d:%d:%s" % (s["file"], s["line"], s["col"], s["class"])
            aim = [p for p in props if s["line"] in set(cov.get(p, {}).get(f, []))]
            if s["class"] == "nocopy" and s["line"] in set(cov.get("C15", {}).get(f, [])):
                aim.append("C15")      # the property about arguments being left alone spans every file
            if not aim:
                s["verdict"] = "unreached"
                unreached.append(s)
                continue
            if s["key"] in done and done[s["key"]].get("old") == s["old"] and done[s["key"]]["verdict"] not in redo:
                continue
            todo.append((s, aim))
    if a.limit:
        todo = todo[:a.limit]
    print("%d sites to run, %d unreached, %d kept from before" % (len(todo), len(unreached), len(done)), flush=True)
    results = dict(done)
    for s in unreached:
        results[s["key"]] = s

    def work(item):
        s, aim = item
        return run_one(s, aim, max(2, 16 // a.jobs))
    n = 0
    with ThreadPoolExecutor(a.jobs) as ex:
        for rec in ex.map(work, todo):
            n += 1
            results[rec["key"]] = rec
            print("%-12s %-44s %-10s %-30s -> %-24s %s" % (rec["verdict"], rec["key"], ",".join(rec["runs"]), rec["old"][:30], rec["new"][:24],
                                                          (list(rec["runs"].values())[-1]["first"] or [""])[0][:70] if rec["runs"] else rec.get("note", "")), flush=True)
            if n % 10 == 0:
                json.dump(sorted(results.values(), key=lambda r: r["key"]), open(a.out, "w"), indent=1)
    json.dump(sorted(results.values(), key=lambda r: r["key"]), open(a.out, "w"), indent=1)
    tally = {}
    for r in results.values():
        tally[r["verdict"]] = tally.get(r["verdict"], 0) + 1
    print(tally)


if __name__ == "__main__":
    main()
