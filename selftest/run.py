#!/venv/bin/python
"""Self-test: apply each mutant (a small textual change) to a scratch copy of
/repo/esutil and require (a) the repository's own suite still passes on it,
(b) the property's check exits 1 on it.  Negative controls (semantically
equivalent edits) must leave the check at exit 0.

usage: selftest/run.py [--tier quick] [--no-suite] [name-or-property ...]
"""
import argparse
import json
import os
import shutil
import subprocess
import sys
import tempfile
import time

HERE = os.path.dirname(os.path.abspath(__file__))
VERIF = os.path.dirname(HERE)
sys.path.insert(0, VERIF)
from selftest.mutants import MUTANTS  # noqa: E402
from vlib import build as vbuild  # noqa: E402


def apply(root, m):
    for f, old, new in m["edits"]:
        p = os.path.join(root, f)
        s = open(p).read()
        if s.count(old) != 1:
            raise RuntimeError("mutant %s: pattern occurs %d times in %s" % (m["name"], s.count(old), f))
        open(p, "w").write(s.replace(old, new))


def suite(root):
    """Run the repository's tests against the mutated scratch copy."""
    tmp = tempfile.mkdtemp(prefix="esv-mutso-")
    try:
        vbuild.compile_exts(root, root, "plain")
        env = dict(os.environ, PYTHONPATH=root, PYTHONDONTWRITEBYTECODE="1")
        r = subprocess.run(["/venv/bin/python", "-m", "pytest", "-q", "-x", "-p", "no:cacheprovider", "-n", "8",
                            os.path.join(root, "esutil", "tests")], cwd=tmp, env=env, capture_output=True, text=True,
                           timeout=900)
        tail = r.stdout.strip().split("\n")[-1]
        return r.returncode == 0, tail
    finally:
        shutil.rmtree(tmp, ignore_errors=True)
        for dp, dn, fn in os.walk(root):
            for f in fn:
                if f.endswith(".so"):
                    os.unlink(os.path.join(dp, f))


def main():
    ap = argparse.ArgumentParser()
    ap.add_argument("--tier", default="quick")
    ap.add_argument("--no-suite", action="store_true")
    ap.add_argument("--out", default=os.path.join(HERE, "results.json"))
    ap.add_argument("--resume", action="store_true", help="keep ok results from --out and run only the rest")
    ap.add_argument("--redo", nargs="*", default=[], help="with --resume: properties to run again anyway")
    ap.add_argument("names", nargs="*")
    a = ap.parse_args()
    sel = [m for m in MUTANTS if not a.names or m["name"] in a.names or m["prop"] in a.names]
    results = []
    done = {}
    if a.resume and os.path.exists(a.out):
        done = {r["name"]: r for r in json.load(open(a.out))}
    for m in sel:
        if m["name"] in done and done[m["name"]]["verdict"].startswith("ok") and m["prop"] not in a.redo:
            results.append(done[m["name"]])
            continue
        root = tempfile.mkdtemp(prefix="esv-mut-")
        t0 = time.time()
        try:
            shutil.copytree(os.path.join(os.environ.get("VERIF_REPO", "/repo"), "esutil"), os.path.join(root, "esutil"),
                            ignore=shutil.ignore_patterns("*.so", "__pycache__"))
            try:
                apply(root, m)
            except RuntimeError as e:
                print("STALE   %s:%s %s" % (m["prop"], m["name"], e), flush=True)
                results.append({"name": m["name"], "prop": m["prop"], "control": bool(m.get("control")), "rc": -1, "verdict": "STALE",
                                "suite_passes": None, "first": [str(e)], "tier": a.tier, "why": m.get("why", "")})
                continue
            suite_ok, suite_tail = (None, "skipped") if a.no_suite else suite(root)
            env = dict(os.environ, VERIF_REPO=root)
            r = subprocess.run([os.path.join(VERIF, "check"), m["prop"], "--tier", a.tier, "--no-evidence"],
                               env=env, capture_output=True, text=True, timeout=7200)
            want = 0 if m.get("control") else 1
            verdict = "ok" if r.returncode == want else "MISSED" if want == 1 else "FALSE-ALARM"
            if suite_ok is False:
                verdict += " (suite kills it: %s)" % suite_tail
            last = [l for l in r.stdout.strip().split("\n") if l][-1:] or [""]
            firstv = [l for l in r.stdout.split("\n") if l.startswith("  [")][:2]
            print("%-7s %-44s rc=%d want=%d suite=%s %.0fs | %s" % (
                verdict, m["prop"] + ":" + m["name"], r.returncode, want, suite_ok, time.time() - t0,
                (firstv[0].strip()[:110] if firstv else last[0][:110])), flush=True)
            results.append({"name": m["name"], "prop": m["prop"], "control": bool(m.get("control")),
                            "rc": r.returncode, "verdict": verdict, "suite_passes": suite_ok,
                            "first": firstv, "tier": a.tier, "why": m.get("why", "")})
        finally:
            shutil.rmtree(root, ignore_errors=True)
            if not a.names or a.resume:
                json.dump(results + [r for n, r in done.items() if n not in {x["name"] for x in results}], open(a.out, "w"), indent=1)
    if not a.names or a.resume:
        json.dump(results, open(a.out, "w"), indent=1)
    bad = [r for r in results if not r["verdict"].startswith("ok")]
    return 1 if bad else 0


if __name__ == "__main__":
    sys.exit(main())
