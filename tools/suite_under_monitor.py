#!/venv/bin/python
"""Run the repository's test suite in a scratch build with all online monitors installed and report what they saw.
A monitor that fires here is either too strict or a defect the tests do not assert; the suite must still pass."""
import glob, json, os, shutil, subprocess, sys, tempfile
VERIF = os.path.dirname(os.path.dirname(os.path.abspath(__file__)))
sys.path.insert(0, VERIF)
from vlib import build as vbuild  # noqa

scratch, info = vbuild.build(os.environ.get("VERIF_REPO", "/repo"), "plain")
out = tempfile.mkdtemp(prefix="esv-mon-")
try:
    env = dict(os.environ, PYTHONPATH=scratch + os.pathsep + VERIF, VERIF_MONITOR_OUT=out, PYTHONDONTWRITEBYTECODE="1", PYTHONHASHSEED="0")
    r = subprocess.run(["/venv/bin/python", "-m", "pytest", "-q", "-p", "no:cacheprovider", "-p", "vlib.pytest_monitor", "-n", "8",
                        os.path.join(scratch, "esutil", "tests")], cwd=out, env=env, capture_output=True, text=True, timeout=3600)
    print(r.stdout.strip().split("\n")[-1])
    counts, viols, calls, errs, c15, c15n = {}, [], {}, [], [], 0
    for f in glob.glob(os.path.join(out, "*.json")):
        d = json.load(open(f))
        for m, c in d["counts"].items():
            t = counts.setdefault(m, [0, 0, 0])
            t[0] += c["ok"]; t[1] += c["violation"]; t[2] += sum(c["skipped"].values())
        viols += d["violations"]
        errs += d["oracle_errors"]
        c15 += d["c15"]; c15n += d["c15_checked"]
        for k, v in d["calls"].items():
            calls[k] = calls.get(k, 0) + v
    print("wrapped calls observed:", sum(calls.values()), "in", len(calls), "functions; argument snapshots:", c15n, "differences:", len(c15))
    for m in sorted(counts):
        print("  %-18s ok=%-7d violation=%-4d skipped=%d" % (m, *counts[m]))
    seen = set()
    for v in viols:
        k = (v["monitor"], v["what"][:90])
        if k not in seen:
            seen.add(k)
            print("  VIOLATION-IN-SUITE [%s] %s  (%s)" % (v["monitor"], v["what"][:200], (v.get("case") or {}).get("test")))
    for d in c15[:10]:
        print("  C15 difference:", d["func"], d["arg"], d["changed"], (d.get("case") or {}).get("test"))
    for e in errs[:10]:
        print("  monitor error:", e.get("label"), e.get("err"), (e.get("tb") or "")[-300:])
    sys.exit(0 if r.returncode == 0 and not viols and not errs and not c15 else 1)
finally:
    shutil.rmtree(scratch, ignore_errors=True)
    shutil.rmtree(out, ignore_errors=True)
