#!/venv/bin/python
"""Confirm a seeded change produced by a blind sub-agent and run the check against it.

usage: tools/seedtest.py <seed-id> <property> <worktree-dir> [--tier quick|thorough] [--needs "..."]

Steps (all in a fresh scratch worktree of /repo HEAD, never in /repo itself, except the final check run which
applies the patch to /repo and undoes it straight afterwards):
  1. copy <worktree>/seeded_patch.diff and seeded_demo.py to /verif/seeded/<seed-id>/
  2. scratch worktree: demo on the unchanged tree must exit 0
  3. apply the patch, rebuild, the repository's suite must pass, demo must exit 1
  4. git -C /repo apply patch; ./check <property>; git -C /repo checkout -- .
  5. write meta.json
"""
import argparse
import json
import os
import shutil
import subprocess
import sys
import tempfile

VERIF = os.path.dirname(os.path.dirname(os.path.abspath(__file__)))
PY = "/venv/bin/python"


def sh(cmd, **kw):
    return subprocess.run(cmd, shell=isinstance(cmd, str), capture_output=True, text=True, **kw)


def build(d):
    r = sh("cd %s && %s setup.py -q build_ext --inplace >/dev/null 2>&1; rm -rf build tmp" % (d, PY))
    return r.returncode


def main():
    ap = argparse.ArgumentParser()
    ap.add_argument("seed")
    ap.add_argument("prop")
    ap.add_argument("worktree")
    ap.add_argument("--tier", default="quick")
    ap.add_argument("--needs", default="")
    ap.add_argument("--skip-confirm", action="store_true")
    ap.add_argument("--scratch", action="store_true")
    a = ap.parse_args()
    out = os.path.join(VERIF, "seeded", a.seed)
    os.makedirs(out, exist_ok=True)
    for f, g in (("seeded_patch.diff", "patch.diff"), ("seeded_demo.py", "demo.py")):
        src = os.path.join(a.worktree, f)
        if os.path.exists(src):
            shutil.copy(src, os.path.join(out, g))
    patch = os.path.join(out, "patch.diff")
    demo = os.path.join(out, "demo.py")
    meta = {"seed": a.seed, "property": a.prop, "needs_to_manifest": a.needs, "ran": []}
    mp = os.path.join(out, "meta.json")
    if os.path.exists(mp):
        old = json.load(open(mp))
        if not a.needs:
            meta["needs_to_manifest"] = old.get("needs_to_manifest", "")
    if not a.skip_confirm:
        wt = tempfile.mkdtemp(prefix="esv-seedwt-")
        os.rmdir(wt)
        try:
            r = sh(["git", "-C", "/repo", "worktree", "add", "--detach", wt, "HEAD", "-q"])
            assert r.returncode == 0, r.stderr
            build(wt)
            env = dict(os.environ, PYTHONPATH=wt)
            r0 = sh([PY, demo], cwd=wt, env=env, timeout=1800)
            meta["demo_exit_unchanged"] = r0.returncode
            r = sh(["git", "-C", wt, "apply", patch])
            assert r.returncode == 0, "patch does not apply: " + r.stderr
            build(wt)
            rs = sh([PY, "-m", "pytest", "-q", "-p", "no:cacheprovider", "-n", "8", "esutil/tests"], cwd=wt, env=env, timeout=1800)
            meta["suite_with_change"] = rs.stdout.strip().split("\n")[-1]
            r1 = sh([PY, demo], cwd=wt, env=env, timeout=1800)
            meta["demo_exit_with_change"] = r1.returncode
            meta["demo_output_with_change"] = (r1.stdout + r1.stderr)[-600:]
            meta["ran"] += ["demo.py on unchanged scratch worktree", "git apply patch.diff; rebuild; pytest esutil/tests; demo.py"]
        finally:
            sh(["git", "-C", "/repo", "worktree", "remove", "--force", wt])
            shutil.rmtree(wt, ignore_errors=True)
        meta["confirmed"] = (meta["demo_exit_unchanged"] == 0 and meta["demo_exit_with_change"] != 0
                             and " passed" in meta["suite_with_change"] and "failed" not in meta["suite_with_change"])
        print("confirm: unchanged=%r with-change=%r suite=%r -> confirmed=%r" % (
            meta["demo_exit_unchanged"], meta["demo_exit_with_change"], meta["suite_with_change"], meta["confirmed"]))
    if a.scratch:
        # run the check against a scratch worktree of /repo HEAD with the change applied (VERIF_REPO), so that other
        # runs reading /repo at the same time are not disturbed
        wt2 = tempfile.mkdtemp(prefix="esv-seedrun-")
        os.rmdir(wt2)
        r = sh(["git", "-C", "/repo", "worktree", "add", "--detach", wt2, "HEAD", "-q"])
        assert r.returncode == 0, r.stderr
        try:
            r = sh(["git", "-C", wt2, "apply", patch])
            assert r.returncode == 0, r.stderr
            rc = sh([os.path.join(VERIF, "check"), a.prop, "--tier", a.tier, "--no-evidence"], timeout=14400,
                    env=dict(os.environ, VERIF_REPO=wt2))
        finally:
            sh(["git", "-C", "/repo", "worktree", "remove", "--force", wt2])
            shutil.rmtree(wt2, ignore_errors=True)
        how = "scratch worktree of /repo HEAD + git apply patch.diff; VERIF_REPO=<worktree> ./check %s --tier %s" % (a.prop, a.tier)
    else:
        # run the check against /repo with the change applied
        st = sh(["git", "-C", "/repo", "status", "--porcelain", "--untracked-files=no"]).stdout.strip()
        assert st == "", "/repo has uncommitted changes: " + st
        r = sh(["git", "-C", "/repo", "apply", patch])
        assert r.returncode == 0, r.stderr
        try:
            rc = sh([os.path.join(VERIF, "check"), a.prop, "--tier", a.tier, "--no-evidence"], timeout=14400)
        finally:
            sh(["git", "-C", "/repo", "checkout", "--", "."])
        how = "git -C /repo apply patch.diff; ./check %s --tier %s" % (a.prop, a.tier)
    first = [l for l in rc.stdout.split("\n") if l.startswith("  [")][:3]
    last = [l for l in rc.stdout.strip().split("\n") if l][-1:]
    meta["check_%s_exit" % a.tier] = rc.returncode
    meta["check_%s_first_lines" % a.tier] = first or last
    meta["caught_by"] = ("./check %s --tier %s" % (a.prop, a.tier)) if rc.returncode == 1 else meta.get("caught_by")
    meta["ran"].append("%s (exit %d)%s" % (how, rc.returncode, "" if a.scratch else "; git -C /repo checkout -- ."))
    if os.path.exists(mp):
        old = json.load(open(mp))
        for k, v in old.items():
            if k not in meta or (k == "ran"):
                if k == "ran":
                    meta["ran"] = old["ran"] + [x for x in meta["ran"] if x not in old["ran"]]
                else:
                    meta[k] = v
        if meta.get("caught_by") is None:
            meta["caught_by"] = old.get("caught_by")
    json.dump(meta, open(mp, "w"), indent=1)
    print("check %s --tier %s on the seeded tree: exit %d %s" % (a.prop, a.tier, rc.returncode, (first or last)[:1]))
    return 0


if __name__ == "__main__":
    sys.exit(main())
