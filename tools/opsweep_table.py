#!/venv/bin/python
"""Summarise selftest/opsweep.json (+ the hand-written dispositions of survivors in selftest/opsweep_dispositions.json)
into DESIGN.md between <!-- opsweep:begin --> and <!-- opsweep:end -->."""
import json, os, collections
V = os.path.dirname(os.path.dirname(os.path.abspath(__file__)))
import sys
NAME = sys.argv[1] if len(sys.argv) > 1 else "opsweep"
res = json.load(open(os.path.join(V, "selftest", NAME + ".json")))
dp = os.path.join(V, "selftest", NAME + "_dispositions.json")
disp = json.load(open(dp)) if os.path.exists(dp) else {}
by = collections.defaultdict(lambda: collections.Counter())
for r in res:
    by[r["file"]][r["verdict"]] += 1
cols = ["caught", "survived", "inconclusive", "unreached", "invalid", "error"]
byc = collections.defaultdict(lambda: collections.Counter())
for r in res:
    byc[r["class"]][r["verdict"]] += 1
out = ["| file | sites | " + " | ".join(cols) + " |", "|---|---|" + "---|" * len(cols)]
tot = collections.Counter()
for f in sorted(by):
    c = by[f]
    tot.update(c)
    out.append("| %s | %d | %s |" % (f, sum(c.values()), " | ".join(str(c.get(k, 0)) for k in cols)))
out.append("| **all** | %d | %s |" % (sum(tot.values()), " | ".join(str(tot.get(k, 0)) for k in cols)))
out.append("")
out.append("| class | sites | " + " | ".join(cols) + " |")
out.append("|---|---|" + "---|" * len(cols))
for c_ in sorted(byc):
    out.append("| %s | %d | %s |" % (c_, sum(byc[c_].values()), " | ".join(str(byc[c_].get(k, 0)) for k in cols)))
out.append("")
surv = [r for r in res if r["verdict"] in ("survived", "inconclusive")]
out.append("Survivors and inconclusive sites (%d) with their disposition:" % len(surv))
out.append("")
out.append("| site | change | suite | disposition |")
out.append("|---|---|---|---|")
missing = 0
for r in surv:
    d = disp.get(r["key"])
    if d is None:
        missing += 1
        d = "(not yet triaged)"
    out.append("| %s:%d | `%s` -> `%s` | %s | %s |" % (r["file"], r["line"], r["old"].replace("|", "\\|")[:40], r["new"].replace("|", "\\|")[:40],
                                                    {True: "passes", False: "fails", None: "-"}[r.get("suite_passes")], d))
p = os.path.join(V, "DESIGN.md")
s = open(p).read()
b, e = "<!-- %s:begin -->" % NAME, "<!-- %s:end -->" % NAME
if b in s:
    s = s[:s.index(b) + len(b)] + "\n" + "\n".join(out) + "\n" + s[s.index(e):]
    open(p, "w").write(s)
print(NAME + " table: %d sites, %d survivors, %d without a disposition" % (len(res), len(surv), missing))
