#!/bin/sh
# Rebuild the in-tree extension modules of /repo (git-ignored build products)
# and run the pinned baseline suite with every verification guard off.
set -e
cd "${VERIF_REPO:-/repo}"
unset ESUTIL_VERIF
/venv/bin/python setup.py -q build_ext --inplace >/tmp/esv-repo-build.log 2>&1 || { tail -30 /tmp/esv-repo-build.log; exit 3; }
rm -rf build tmp
exec /venv/bin/python -m pytest -ra -q -p no:cacheprovider --timeout=900 --continue-on-collection-errors -n 8 "$@"
