REPO_COMMITS = ["0e45a8e", "f51d74e", "e08c0a5", "7c6f8e4", "33cf0bf", "a187bb0", "a08c8ef", "a09d5b7", "0ea38a2", "2e5f874", "0a1ffee", "684d35f", "eafd2f0", "9d5bf99", "790fbd0", "21822bf", "d0c90be", "58c4540", "83e0612", "4573dc5", "0e8a1d4"]
NOT_APPLICABLE = {}
CHECKS = {
 "C05": dict(
  text="Held-on-what-was-observed: wrappers on stat.histogram and Binner.dohist judge every observed (hist, rev) pair against a NumPy/exact-rational membership reference over seeded edge-valued families, with the C and the Python engine compared bytewise and the workload repeated on an ASan+UBSan build. Exploration is the right level: the input space is unbounded and the deciding step is an oracle on real executions.",
  note="Trusts numpy floor/stable argsort and fractions.Fraction; data finite, bin size > 0, limits keep at least one datum; calls with a datum within rounding of a bin edge are skipped for the count comparison (counted in evidence).",
  technique="API-boundary monitor with independent reference oracle; differential C vs Python engine; ASan+UBSan replay of the workload"),
 "C14": dict(
  text="Held-on-what-was-observed: wrappers on Binner.dohist / Binner.calc_stats / stat.histogram(more, weights, nperbin) recompute every reported per-bin quantity directly from the members the independent C05 reference assigns to each bin (edges, centre, mean, population deviation, median, standard error, weighted count/mean/deviation/both errors, for x and the optional second variable) and the equal-occupancy layout (chunks of the stable-sorted data, merge of a short last bin, low/high, reverse indices in the original frame).",
  note="Trusts numpy mean/std/median/stable argsort. Single-member bins: standard error and weighted errors unconstrained; bins with zero total weight unconstrained; edge-rounding calls skipped.",
  technique="API-boundary monitor with direct recomputation oracle over seeded forced-occupancy workloads; ASan+UBSan replay"),
 "C18": dict(
  text="Held-on-what-was-observed: wrappers on wmom, wmedian, sigma_clip, interplin, get_stats, cov2cor and cor2cov judge every observed call by direct long-double recomputation; sigma clipping by re-running the stated strict-threshold iteration, including a dyadic family whose data sit exactly on the threshold (exactness established with rationals) so that < versus <= is decidable.",
  note="Trusts numpy long double arithmetic and searchsorted. Clipping and weighted-median cases within rounding of their decision threshold are skipped and counted.",
  technique="API-boundary monitor with direct-definition oracle; executable model of the clipping iteration"),
 "C17": dict(
  text="Held-on-what-was-observed: a wrapper on gauleg checks every observed rule (also those computed inside QGauss/QGauss2) for interior, monotone, symmetric abscissae, signed symmetric weights summing to b-a, agreement with numpy's leggauss and exactness on random polynomials up to degree 2n-1 (long-double Horner); wrappers on QGauss.integrate_func/integrate_data and QGauss2.integrate_func compare each result of a per-object call history with the weighted sum formed from the reference rule for the point count then in effect. n = 1..200 is enumerated.",
  note="Trusts numpy.polynomial.legendre.leggauss and long-double arithmetic. Integrator comparison allows the 1e-9 band of the statement scaled by max|f| and max|f'|.",
  technique="API-boundary monitor with reference-rule oracle; per-object call histories judged against fresh reference rules; ASan+UBSan replay"),
 "C06": dict(
  text="Held-on-what-was-observed: wrappers on match, match_multi, unique and rem_dup judge each observed call against a dict/Counter brute-force model on the Python values of the arguments: soundness, completeness, exactly-once, ordering by second-array position, presorted equivalence, scalar acceptance, rejection of a repeated first array, one index per distinct value carrying the maximum flag.",
  note="Trusts Python dict/Counter and numpy tolist(). Same-dtype arrays, no NaN, no empty input; presorted=True only with a sorted first array.",
  technique="API-boundary monitor with brute-force dictionary model"),
 "C07": dict(
  text="Held-on-what-was-observed: wrappers on extract/remove/add/reorder/combine/split_fields judge every observed call: result shape, the documented field list, per-field type (base type, sub-array shape, byte order) and raw element bytes of every retained field, zero/default fill of new fields, independence from the input buffer, and rejection of the invalid requests; copy_fields, copy_fields_by_name and compare_arrays are judged by the driver on before/after snapshots.",
  note="Trusts numpy dtype.fields, ascontiguousarray().tobytes() and item assignment semantics (for expected default fill).",
  technique="API-boundary monitor with documented-order model and bytewise per-field oracle"),
 "C16": dict(
  text="Held-on-what-was-observed: wrappers on to_native/to_big_endian/to_little_endian/byteswap judge each observed call against a pre-call snapshot: field structure, declared order of every multi-byte field equals the requested one (or dtype untouched with keep_dtype), element values equal through the (possibly swapped) dtype, independence of the inplace=False result, identity of the inplace=True result; every call is applied twice for idempotence / swap-swap restoration; predicates are compared with the declared order on every spelling, descr_to_native with dtype.newbyteorder('=').",
  note="Trusts numpy astype between byte orders and dtype.newbyteorder. Little-endian host only (the big-endian-host branches of the predicates cannot execute here).",
  technique="API-boundary monitor with snapshot-based value/order oracle; two-step call histories"),
 "C08": dict(
  text="Held-on-what-was-observed: wrappers on sphdist and gcirc compare every returned separation with atan2(|a x b|, a.b) evaluated in long double from the same float64 inputs (tolerances 1e-11 / 2e-6 deg from the statement), check finiteness and range, and the driver checks symmetry, +360 invariance, exact zero for identical inputs and scalar-vs-array agreement on adversarial families (tiny, near/exactly antipodal, the 170-180 band around the formula switch, polar, seam) in every input form and unit combination.",
  note="Trusts numpy long-double trigonometry (80-bit on this host).",
  technique="API-boundary monitor with long-double geometric oracle; metamorphic relations in the driver"),
 "C09": dict(
  text="Held-on-what-was-observed: wrappers on euler (hence the six named conversions), eq2sdss, sdss2eq, eq2xyz, xyz2eq, shiftlon/shiftra judge every observed call on the sky against long-double reference rotations built from the documented pole/node constants (ranges, finiteness, unit length, congruence mod 360); the driver adds inverse round trips, isometry on point pairs, chained-vs-direct and rotate's proper-isometry/inverse checks, with rings down to 1e-9 deg from the poles of both the source and the target system.",
  note="Trusts numpy long-double trigonometry. B1950 reference constants are the published definitions (not in the file); B1950 ecliptic<->galactic is the composition of the two reference rotations.",
  technique="API-boundary monitor with long-double rotation-matrix oracle; metamorphic round-trip/isometry relations"),
 "C19": dict(
  text="Held-on-what-was-observed: wrappers on randcap and randsphere check every returned point (count, ranges, long-double separation from the centre <= r + 1e-9 deg, returned radius == separation, box membership) with seeded legacy/new generators and with a duck-typed generator handing out boundary deviates (rim of the cap, cardinal position angles); Generator.sample is fed known deviates through a stub and compared with an own long-double inverse of the own trapezoid cumulative; the Cholesky samplers are checked by solving back to exactly the multiset of deviates a recording source handed out; random_indices for range/count/uniqueness; reproducibility by running every seeded call twice.",
  note="Trusts numpy long-double trigonometry, numpy.linalg.cholesky/solve (shared with the code). Deviates below the first tabulated cumulative value are unconstrained.",
  technique="API-boundary monitor with geometric oracle; stub/recording deviate sources making the sampler's map deterministic"),
 "C01": dict(
  text="Held-on-what-was-observed: each seeded table (raw random cell bytes, dtype zoo, hostile field names and header text) is written through one of five write routes, the file itself is inspected (bytes after the first line that is exactly END + blank line must equal the array buffer), and it is read back through up to twelve read routes including the cross route (written by sfile, read by Recfile given dtype, offset and row count); every result is compared on dtype structure (names, base type, byte order, sub-array shape) and raw bytes, every returned header on user keys (value and type), _SIZE and a _DTYPE that rebuilds the dtype. The workload is repeated on the ASan+UBSan build (fwrite/fread are intercepted).",
  note="Trusts numpy tobytes/dtype comparison. >= 1 row, packed dtypes, finite header literals.",
  technique="round-trip oracle on observed executions of every entry point plus file-level byte oracle; ASan+UBSan replay"),
 "C04": dict(
  text="Held-on-what-was-observed: seeded tables (integer extremes, 17-digit floats over all decades plus subnormals/NaN/inf, hostile ASCII strings, every adjacent pair of field kinds including across the row boundary) are written as delimited text through four routes with six delimiters and read back; every cell is compared (integers and strings exactly, floats to one unit in the 16th/7th significant digit in long double), names/shapes/native byte order, the header's _DELIM and byte-order-free _DTYPE, and the newline count of the file body. Repeated on the ASan+UBSan build (fscanf writes into the output array at per-field offsets).",
  note="Strings without newline and bytes >= 0x80; doubles whose 16-digit rounding overflows are not generated; UBSan's alignment check is off (packed records are unaligned by construction).",
  technique="round-trip oracle on observed executions with per-cell tolerance model; ASan+UBSan replay"),
}
