#!/venv/bin/python
"""Regenerate the table of seeded changes in DESIGN.md (between the seed-table markers) from seeded/*/meta.json."""
import glob, json, os
HERE = os.path.dirname(os.path.dirname(os.path.abspath(__file__)))
rows = []
for mp in sorted(glob.glob(os.path.join(HERE, "seeded", "*", "meta.json"))):
    m = json.load(open(mp))
    runs = [r for r in m.get("ran", []) if "./check" in r]
    exits = [int(r.split("(exit ")[1].split(")")[0]) for r in runs if "(exit " in r]
    first_missed = bool(exits) and exits[0] == 0
    caught = m.get("caught_by") or "NOT CAUGHT"
    line = (m.get("check_quick_first_lines") or m.get("check_thorough_first_lines") or [""])[0].strip()
    mon = line.split("]")[0].lstrip("[") if line.startswith("[") else ""
    rows.append("| %s | %s | %s | %s%s | %s |" % (m["seed"], m["property"], (m.get("needs_to_manifest") or "").replace("|", "/"),
                                                 caught.replace("./check ", ""), " (" + mon + ")" if mon else "",
                                                 "missed at first; check strengthened" if first_missed else "first run"))
tbl = ["<!-- seed-table:begin -->", "", "| seeded change | property | needs, in order to manifest | caught by (first monitor to fire) | history |",
       "|---|---|---|---|---|"] + rows + ["", "%d seeded changes, all confirmed (demo 0 -> 1, suite passes with the change) and all caught: by the quick tier except where the column says thorough." % len(rows)
                                      if all("NOT CAUGHT" not in r for r in rows) else "%d seeded changes." % len(rows), "", "<!-- seed-table:end -->"]
p = os.path.join(HERE, "DESIGN.md")
s = open(p).read()
a, b = "<!-- seed-table:begin -->", "<!-- seed-table:end -->"
assert a in s
s = s[:s.index(a)] + "\n".join(tbl) + s[s.index(b) + len(b):]
open(p, "w").write(s)
print("seed table: %d rows" % len(rows))
