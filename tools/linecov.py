#!/venv/bin/python
"""Which lines of esutil does each property's quick workload execute?  (sys.monitoring LINE events, 3.12+.)

usage: tools/linecov.py C05 [C14 ...]   -> selftest/linecov/<prop>.json  {file: [line, ...]}

Runs the property's generator in-process against $VERIF_REPO (default /repo, in-tree extensions as built by
tools/repo_suite.sh) - this is an audit of the *workloads* (which entry points, options and branches they reach),
not a check: nothing is judged here and nothing registered in MANIFEST.json uses it.  selftest/opsweep.py uses the
map to aim mechanical mutants at the properties that execute the mutated line, and lists the lines of public functions
that no workload reaches.
"""
import importlib
import json
import os
import sys
import tempfile

HERE = os.path.dirname(os.path.abspath(__file__))
VERIF = os.path.dirname(HERE)
sys.path.insert(0, VERIF)
REPO = os.environ.get("VERIF_REPO", "/repo")
sys.path.insert(0, REPO)


def main():
    props = sys.argv[1:]
    out = os.path.join(VERIF, "selftest", "linecov")
    os.makedirs(out, exist_ok=True)
    for prop in props:
        pid = os.fork()
        if pid:
            os.waitpid(pid, 0)
            continue
        hits = {}
        root = os.path.realpath(os.path.join(REPO, "esutil")) + os.sep
        mon = sys.monitoring
        tid = mon.COVERAGE_ID
        mon.use_tool_id(tid, "verif-linecov")

        def on_line(code, line):
            fn = code.co_filename
            if fn.startswith(root) and "/tests/" not in fn:
                hits.setdefault(fn[len(root):], set()).add(line)
            return mon.DISABLE
        mon.register_callback(tid, mon.events.LINE, on_line)
        mon.set_events(tid, mon.events.LINE)
        import esutil  # noqa
        assert os.path.realpath(esutil.__file__).startswith(root), esutil.__file__
        from vlib import probe
        mod = importlib.import_module("vlib.props." + prop.lower())
        mod.install()
        work = tempfile.mkdtemp(prefix="esv-lc-")
        os.environ["VERIF_CASEDIR"] = work
        n = 0
        for i, case in enumerate(mod.cases(int(os.environ.get("VERIF_SEED", "0")), "quick")):
            case = dict(case)
            case["_i"] = i
            probe.COL.case = case
            probe.COL.case_events = []
            try:
                mod.run_case(case)
            except Exception as e:   # noqa
                print("driver error", prop, repr(e)[:200], file=sys.stderr)
            n += 1
        mon.set_events(tid, 0)
        json.dump({k: sorted(v) for k, v in sorted(hits.items())}, open(os.path.join(out, prop + ".json"), "w"))
        print(prop, n, "cases;", sum(len(v) for v in hits.values()), "lines in", len(hits), "files", flush=True)
        import shutil
        shutil.rmtree(work, ignore_errors=True)
        os._exit(0)


if __name__ == "__main__":
    main()
