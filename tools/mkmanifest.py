#!/venv/bin/python
"""Regenerate MANIFEST.json from the table below (one place to edit)."""
import json, os, sys
HERE = os.path.dirname(os.path.dirname(os.path.abspath(__file__)))
sys.path.insert(0, HERE)
from tools.manifest_table import CHECKS, NOT_APPLICABLE, REPO_COMMITS  # noqa

import subprocess
try:
    _log = subprocess.run(["git", "-C", "/repo", "log", "--reverse", "--format=%h %s"], capture_output=True, text=True).stdout
    _fx = [l.split()[0] for l in _log.split("\n") if l.split(" ", 1)[1:] and l.split(" ", 1)[1].startswith("fix:")]
    if len(_fx) >= len(REPO_COMMITS):
        REPO_COMMITS = _fx
except Exception:
    pass
props = [json.loads(l) for l in open(os.path.join(HERE, "properties.jsonl"))]
ids = [p["id"] for p in props]
checks = []
for pid in ids:
    if pid not in CHECKS:
        continue
    c = CHECKS[pid]
    checks.append({
        "property_id": pid,
        "quick_cmd": "./check %s --tier quick" % pid,
        "thorough_cmd": "./check %s --tier thorough" % pid,
        "evidence_file": "evidence/%s.json" % pid,
        "replay_cmd_template": "./check %s --replay {path}" % pid,
        "engine": "vlib",
        "level_claimed": {"category": "exploration", "text": c["text"], "design_ref": c.get("ref", "DESIGN.md section 5, " + pid)},
        "level_note": c["note"],
        "technique": c["technique"],
    })
na = [{"property_id": pid, "reason": NOT_APPLICABLE.get(pid, "check not built yet in this round; no claim is made")}
      for pid in ids if pid not in CHECKS]
m = {
    "version": 1,
    "setup_cmd": "./setup.sh",
    "hooks": {
        "guard": "ESUTIL_VERIF",
        "enable": "no source hooks are needed: every observation is made by wrappers installed from /verif at the public API boundary of a scratch build of /repo's working tree (vlib/probe.py); ESUTIL_VERIF is reserved and unused",
        "baseline_off_cmd": "./tools/repo_suite.sh",
        "source_commits": [],
        "add_only": True,
    },
    "engines": [{"name": "vlib", "path": "vlib/", "serves_properties": [c["property_id"] for c in checks],
                 "kind_free_text": "runtime monitors (API-boundary wrappers with independent online oracles, history/model checkers over recorded events, argument snapshots) driven by seeded hostile workloads on a fresh build of the working tree, repeated on a clang ASan+UBSan build for native mechanisms"}],
    "checks": checks,
    "not_applicable": na,
    "notes": "fix: commits in /repo (unguarded defect repairs): " + ", ".join(REPO_COMMITS) + ". Exit codes: 0 held, 1 violated, 2 inconclusive. known_findings.json lists genuine defects left in the tree (status known) and repaired ones (status fixed).",
}
json.dump(m, open(os.path.join(HERE, "MANIFEST.json"), "w"), indent=1)
print("wrote MANIFEST.json with %d checks, %d not_applicable" % (len(checks), len(na)))
