#!/venv/bin/python
"""Re-run every seeded change under seeded/ against the current checks (scratch worktree of /repo HEAD + patch,
VERIF_REPO pointing at it) and report which are caught.  A patch that no longer applies to HEAD is reported as such.

usage: tools/seedsweep.py [--tier quick] [seed-id ...]"""
import argparse, glob, json, os, shutil, subprocess, sys, tempfile
VERIF = os.path.dirname(os.path.dirname(os.path.abspath(__file__)))


def sh(cmd, **kw):
    return subprocess.run(cmd, capture_output=True, text=True, **kw)


def main():
    ap = argparse.ArgumentParser()
    ap.add_argument("--tier", default="quick")
    ap.add_argument("names", nargs="*")
    a = ap.parse_args()
    rows = []
    for mp in sorted(glob.glob(os.path.join(VERIF, "seeded", "*", "meta.json"))):
        m = json.load(open(mp))
        if a.names and m["seed"] not in a.names:
            continue
        prop = m["seed"].split("-")[0][:3]
        patch = os.path.join(os.path.dirname(mp), "patch.diff")
        if m.get("neutralised_at_head_by"):
            # a later repair of /repo made this change harmless (its own demonstration passes at HEAD + patch); it was
            # caught on the tree it was made against, see meta.json
            rows.append((m["seed"], prop, "harmless-at-HEAD-since-" + m["neutralised_at_head_by"], ""))
            print("%-50s %s  harmless at HEAD since repair %s" % (m["seed"], prop, m["neutralised_at_head_by"]), flush=True)
            continue
        wt = tempfile.mkdtemp(prefix="esv-seedsweep-")
        os.rmdir(wt)
        r = sh(["git", "-C", "/repo", "worktree", "add", "--detach", wt, "HEAD", "-q"])
        try:
            r = sh(["git", "-C", wt, "apply", patch])
            if r.returncode != 0:
                r3 = sh(["git", "-C", wt, "apply", "--3way", patch])
                if r3.returncode != 0:
                    rows.append((m["seed"], prop, "patch-does-not-apply-to-HEAD", ""))
                    print("%-50s %s  patch does not apply to HEAD any more" % (m["seed"], prop), flush=True)
                    continue
            rc = sh([os.path.join(VERIF, "check"), prop, "--tier", a.tier, "--no-evidence"], timeout=14400, env=dict(os.environ, VERIF_REPO=wt))
            first = [l.strip() for l in rc.stdout.split("\n") if l.startswith("  [")][:1]
            verdict = {1: "caught", 0: "MISSED", 2: "inconclusive"}.get(rc.returncode, "rc=%d" % rc.returncode)
            rows.append((m["seed"], prop, verdict, (first or [""])[0][:120]))
            print("%-50s %s  %-12s %s" % (m["seed"], prop, verdict, (first or [""])[0][:110]), flush=True)
        finally:
            sh(["git", "-C", "/repo", "worktree", "remove", "--force", wt])
            shutil.rmtree(wt, ignore_errors=True)
    json.dump([dict(seed=s, property=p, verdict=v, first=f) for s, p, v, f in rows], open(os.path.join(VERIF, "seeded", "sweep.json"), "w"), indent=1)
    bad = [r for r in rows if r[2] not in ("caught", "patch-does-not-apply-to-HEAD") and not r[2].startswith("harmless-at-HEAD")]
    print("%d seeded changes: %d caught, %d missed/inconclusive, %d no longer apply" % (
        len(rows), sum(r[2] == "caught" for r in rows), len(bad), sum(r[2] == "patch-does-not-apply-to-HEAD" for r in rows)))
    return 1 if bad else 0


if __name__ == "__main__":
    sys.exit(main())
