#!/venv/bin/python
"""List, per source file, the executable lines inside functions that no value-judging property workload reaches
(selftest/linecov/*.json from tools/linecov.py).  usage: tools/uncovered.py [file-substring]"""
import ast, json, glob, os, sys
REPO = os.environ.get("VERIF_REPO", "/repo")
FILEMAP = {"stat/util.py": ["C05", "C14", "C18"], "numpy_util.py": ["C06", "C07", "C16", "C20"], "coords.py": ["C08", "C09", "C19"],
           "wcsutil.py": ["C10"], "cosmology/cosmology.py": ["C11"], "htm/htm.py": ["C12", "C13"], "sfile.py": ["C01", "C02", "C03", "C04"],
           "recfile/Util.py": ["C01", "C02", "C03", "C04"], "integrate/util.py": ["C17"], "random.py": ["C19"], "algorithm.py": ["C20"],
           "pbar.py": ["C20"], "io.py": ["C01", "C04"]}
cov = {os.path.basename(f)[:-5]: json.load(open(f)) for f in glob.glob(os.path.join(os.path.dirname(__file__), "..", "selftest", "linecov", "*.json"))}
sel = sys.argv[1] if len(sys.argv) > 1 else ""
for f, props in FILEMAP.items():
    if sel not in f:
        continue
    src = open(os.path.join(REPO, "esutil", f)).read()
    lines = src.split("\n")
    hit = set()
    for p in props:
        hit |= set(cov.get(p, {}).get(f, []))
    tree = ast.parse(src)
    print("==== %s (%s)" % (f, ",".join(props)))
    for node in ast.walk(tree):
        if isinstance(node, (ast.FunctionDef,)):
            body = set()
            for sub in ast.walk(node):
                if isinstance(sub, ast.stmt) and sub is not node and not (isinstance(sub, ast.Expr) and isinstance(sub.value, ast.Constant) and isinstance(sub.value.value, str)):
                    if isinstance(sub, (ast.FunctionDef, ast.ClassDef)):
                        continue
                    body.add(sub.lineno)
            if not body:
                continue
            miss = sorted(body - hit)
            if not miss:
                continue
            if len(miss) == len(body):
                print("  %-34s NEVER CALLED (%d stmts)" % (node.name, len(body)))
            else:
                print("  %-34s %d/%d stmts unreached:" % (node.name, len(miss), len(body)))
                for l in miss[:14]:
                    print("      %5d  %s" % (l, lines[l - 1].strip()[:110]))
