#!/venv/bin/python
"""Rewrite the generated mutant table at the end of DESIGN.md from selftest/results.json."""
import json, os, sys
HERE = os.path.dirname(os.path.dirname(os.path.abspath(__file__)))
sys.path.insert(0, HERE)
from selftest.mutants import MUTANTS  # noqa
res = {r["name"]: r for r in json.load(open(os.path.join(HERE, "selftest", "results.json")))}
lines = ["<!-- mutant-table:begin -->", "", "### Mutant table (generated)", "",
         "`rc` is the exit code of the property's quick check on the mutated scratch copy; controls must give 0. "
         "\"suite\" says whether the repository's own 167 tests still pass on the mutant.", "",
         "| property | mutant | kind | rc | verdict | suite passes | what it changes |", "|---|---|---|---|---|---|---|"]
n_ok = n_miss = n_ctl = 0
for m in MUTANTS:
    r = res.get(m["name"])
    if r is None:
        continue
    kind = "control" if m.get("control") else "mutant"
    if r["verdict"].startswith("ok"):
        if m.get("control"):
            n_ctl += 1
        else:
            n_ok += 1
    else:
        n_miss += 1
    lines.append("| %s | %s | %s | %d | %s | %s | %s |" % (m["prop"], m["name"], kind, r["rc"], r["verdict"].split(" (")[0],
                                                     r["suite_passes"], (m.get("why") or "").replace("|", "/")[:140]))
lines += ["", "%d mutants caught, %d controls silent, %d not as expected." % (n_ok, n_ctl, n_miss), "", "<!-- mutant-table:end -->"]
p = os.path.join(HERE, "DESIGN.md")
s = open(p).read()
if "<!-- mutant-table:begin -->" in s:
    s = s[:s.index("<!-- mutant-table:begin -->")] + "\n".join(lines) + s[s.index("<!-- mutant-table:end -->") + len("<!-- mutant-table:end -->"):]
else:
    s = s.rstrip() + "\n\n\n" + "\n".join(lines) + "\n"
open(p, "w").write(s)
print("table written: %d caught, %d controls silent, %d unexpected" % (n_ok, n_ctl, n_miss))
