#!/bin/sh
# Offline setup: nothing persistent is built; verify the toolchain the checks need.
set -e
cd "$(dirname "$0")"
for t in gcc g++ clang clang++; do command -v $t >/dev/null || { echo "missing $t"; exit 1; }; done
/venv/bin/python -c "import numpy, scipy; print('numpy', numpy.__version__, 'scipy', scipy.__version__)"
test -f "$(clang -print-file-name=libclang_rt.asan-x86_64.so)" || { echo "no asan runtime"; exit 1; }
mkdir -p evidence replays
echo setup ok
